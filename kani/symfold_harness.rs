
// ---- appended by /verif (vx/kani.py) to a scratch copy of incremental-map/src/symmetric_fold.rs ----
// Bounded counterexample finder for MergeOnce (NOT a proof: arrays of length <= 3 over u8).  It asserts the same
// postconditions the Verus contract states: strictly ascending output, exactly the union of both inputs.
#[cfg(kani)]
mod vx_kani {
    use super::*;

    fn sorted_prefix(a: &[u8; 3], n: usize) -> bool {
        (n < 2 || a[0] < a[1]) && (n < 3 || a[1] < a[2])
    }

    #[kani::proof]
    #[kani::unwind(8)]
    fn merge_once_is_the_sorted_union() {
        let a: [u8; 3] = kani::any();
        let b: [u8; 3] = kani::any();
        let la: usize = kani::any();
        let lb: usize = kani::any();
        kani::assume(la <= 3 && lb <= 3);
        kani::assume(sorted_prefix(&a, la) && sorted_prefix(&b, lb));
        let mut m = MergeOnce::new(a[..la].iter(), b[..lb].iter());
        let mut out = [0u8; 6];
        let mut n = 0usize;
        while let Some(x) = m.next() {
            assert!(n < 6, "merge yields more items than both inputs hold");
            out[n] = *x;
            n += 1;
        }
        // strictly ascending
        let mut i = 1;
        while i < n {
            assert!(out[i - 1] < out[i], "merge output not strictly ascending (a key visited twice or out of order)");
            i += 1;
        }
        // every input key is visited
        let mut i = 0;
        while i < la {
            let mut found = false;
            let mut j = 0;
            while j < n { if out[j] == a[i] { found = true; } j += 1; }
            assert!(found, "a key of the left input was skipped");
            i += 1;
        }
        let mut i = 0;
        while i < lb {
            let mut found = false;
            let mut j = 0;
            while j < n { if out[j] == b[i] { found = true; } j += 1; }
            assert!(found, "a key of the right input was skipped");
            i += 1;
        }
        // nothing else is visited
        let mut j = 0;
        while j < n {
            let mut found = false;
            let mut i = 0;
            while i < la { if a[i] == out[j] { found = true; } i += 1; }
            let mut i = 0;
            while i < lb { if b[i] == out[j] { found = true; } i += 1; }
            assert!(found, "merge invented a key");
            j += 1;
        }
    }
}
