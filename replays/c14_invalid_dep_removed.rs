// Replay for C14 / D2: removing a dependency whose child has been invalidated must not invalidate or
// wedge the expert node ("Adding or removing dependencies, including ... dependencies whose child has been
// invalidated, never panics, invalidates or wedges the node").
// Copied into <scratch copy of /repo>/tests/ by `./check C14 --replay`.
use std::{cell::RefCell, rc::Rc};

use incremental::{expert::*, Incr, IncrState, Value};

/// `join` built with the expert API, as in tests/expert.rs.
fn join<T: Value>(incr: &Incr<Incr<T>>) -> Incr<T> {
    let prev_rhs: Rc<RefCell<Option<Dependency<T>>>> = Rc::new(None.into());
    let state = incr.state();
    let join = Node::<T>::new(&state, {
        let prev_rhs_ = prev_rhs.clone();
        move || prev_rhs_.borrow().clone().unwrap().value_cloned()
    });
    let join_ = join.weak();
    let lhs_change = incr.map(move |rhs| {
        let dep = join_.add_dependency(rhs);
        let mut prev_rhs_ = prev_rhs.borrow_mut();
        if let Some(prev) = prev_rhs_.take() {
            join_.remove_dependency(prev);
        }
        prev_rhs_.replace(dep);
    });
    join.add_dependency(&lhs_change);
    join.watch()
}

#[test]
fn expert_join_over_bind_created_inner_nodes() {
    let state = IncrState::new();
    let v = state.var(1i32);
    let w = state.var(100i32);
    let ww = w.watch();
    let ws = state.weak();
    // outer : Incr<Incr<i32>>; the inner node is created inside the bind, so it is invalidated
    // when `v` changes and the bind re-runs.
    let outer: Incr<Incr<i32>> = v.bind(move |&x| {
        let inner = ww.map(move |y| y + x);
        ws.constant(inner)
    });
    let joined = join(&outer);
    let o = joined.observe();
    state.stabilise();
    assert_eq!(o.try_get_value(), Ok(101));
    v.set(2);
    state.stabilise();
    // reference computation: w + v
    assert_eq!(o.try_get_value(), Ok(102));
    w.set(200);
    state.stabilise();
    assert_eq!(o.try_get_value(), Ok(202));
}
