// Replay for C09 / C11 (D6): unsubscribing twice with the same token must not disturb other subscriptions on the
// node ("Changed(v) at the end of exactly those stabilises in which the observed node's result changed ... whatever
// else happened to the node: extra observers, extra subscriptions").
// Copied into <scratch copy of /repo>/tests/ by `./check C09 --replay`.
use incremental::*;
use std::cell::RefCell;
use std::rc::Rc;

#[test]
fn double_unsubscribe_does_not_silence_a_sibling_subscription() {
    let s = IncrState::new();
    let v = s.var(1);
    let o1 = v.observe();
    let o2 = v.observe();
    s.stabilise();
    let log = Rc::new(RefCell::new(Vec::<String>::new()));
    let l = log.clone();
    let _keep = o2.subscribe(move |u| l.borrow_mut().push(format!("{:?}", u.cloned())));
    let t1 = o1.subscribe(|_| {});
    s.stabilise();
    assert_eq!(o1.unsubscribe(t1), Ok(()));
    assert_eq!(o1.unsubscribe(t1), Ok(())); // same token again: nothing left to remove
    v.set(2);
    s.stabilise();
    assert_eq!(*log.borrow(), vec!["Initialised(1)".to_string(), "Changed(2)".to_string()]);
}
