// Replay for C09 (D8): "no callback runs after unsubscribe" - also when the subscription is cancelled through the
// state before the observer has been through its first stabilise.
// Copied into <scratch copy of /repo>/tests/ by `./check C09 --replay`.
use incremental::*;
use std::cell::Cell;
use std::rc::Rc;

#[test]
fn state_unsubscribe_of_a_not_yet_stabilised_observer_cancels_the_subscription() {
    let s = IncrState::new();
    let v = s.var(1);
    let o = v.observe();
    let calls = Rc::new(Cell::new(0));
    let c = calls.clone();
    let token = o.subscribe(move |_| c.set(c.get() + 1));
    s.unsubscribe(token); // observer not linked yet
    s.stabilise();
    v.set(2);
    s.stabilise();
    assert_eq!(calls.get(), 0, "callback ran after unsubscribe");
    // and the observer itself is unaffected
    assert_eq!(o.value(), 2);
}

#[test]
fn state_unsubscribe_after_the_observer_is_gone_is_a_silent_no_op() {
    let s = IncrState::new();
    let v = s.var(1);
    let o = v.observe();
    let token = o.subscribe(|_| {});
    drop(o);
    s.unsubscribe(token);
    s.stabilise();
    s.unsubscribe(token);
}
