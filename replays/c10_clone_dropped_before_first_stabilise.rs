// Replay for C10 / C07 (D10): "clones share one lifecycle and only dropping the last clone ends it"; "a new observer
// returns NeverStabilised until it has been through one stabilise". With `Rc::strong_count(&self.internal) <= 2` as the
// last-handle test in `impl Drop for Observer` (tree 5a01aa0), dropping one of two clones before the first stabilise
// disallowed the survivor: Err(Disallowed) instead of Err(NeverStabilised), then instead of Ok(10); subscribe refused.
// Copied into <scratch copy of /repo>/tests/ by `./check C10 --replay`.

use incremental::{IncrState, ObserverError};
use std::cell::Cell;
use std::rc::Rc;

/// Control: cloning and dropping a clone AFTER the first stabilise is fine (also with the
/// mutation). Shows that ordinary clone/drop usage does not expose the defect.
#[test]
fn clone_dropped_after_first_stabilise_keeps_observer_alive() {
    let incr = IncrState::new();
    let var = incr.var(10);
    let o1 = var.observe();
    incr.stabilise();
    let o2 = o1.clone();
    assert_eq!(o1.try_get_value(), Ok(10));
    drop(o2);
    assert_eq!(o1.try_get_value(), Ok(10));
    var.set(11);
    incr.stabilise();
    assert_eq!(o1.try_get_value(), Ok(11));
}

/// The crux: clone an observer BEFORE the first stabilise after its creation, and drop one
/// of the two clones while it is still in that never-stabilised phase. The surviving clone
/// must continue the normal lifecycle: NeverStabilised -> value -> ... .
#[test]
fn clone_dropped_before_first_stabilise_keeps_observer_alive() {
    let incr = IncrState::new();
    let var = incr.var(10);
    let o1 = var.observe();
    let o2 = o1.clone();
    assert_eq!(o1.try_get_value(), Err(ObserverError::NeverStabilised));
    assert_eq!(o2.try_get_value(), Err(ObserverError::NeverStabilised));

    // Not the last clone: must not end the shared lifecycle.
    drop(o2);
    assert_eq!(
        o1.try_get_value(),
        Err(ObserverError::NeverStabilised),
        "dropping a non-last clone before the first stabilise changed the survivor's state"
    );

    incr.stabilise();
    assert_eq!(
        o1.try_get_value(),
        Ok(10),
        "survivor must yield values after the first stabilise"
    );
    var.set(11);
    incr.stabilise();
    assert_eq!(o1.try_get_value(), Ok(11));

    // Only now, dropping the last clone (via explicit disallow first, to keep a handle) ends it.
    let o3 = o1.clone();
    drop(o1);
    assert_eq!(o3.try_get_value(), Ok(11));
    o3.disallow_future_use();
    assert_eq!(o3.try_get_value(), Err(ObserverError::Disallowed));
}

/// Same sequence, but seen through subscriptions and through a *second* observer of the same
/// node: the survivor's subscription must be accepted and must fire; the other observer is
/// unaffected in either case.
#[test]
fn clone_dropped_before_first_stabilise_subscription_survives() {
    let incr = IncrState::new();
    let var = incr.var(1);
    let other = var.observe();
    let o1 = var.observe();
    let o2 = o1.clone();

    let hits = Rc::new(Cell::new(0u32));
    let hits_ = hits.clone();
    o1.try_subscribe(move |_| hits_.set(hits_.get() + 1))
        .expect("subscribe on a fresh observer");

    drop(o2); // not the last clone

    // subscribing through the survivor must still be allowed
    let hits2 = Rc::new(Cell::new(0u32));
    let hits2_ = hits2.clone();
    assert!(
        o1.try_subscribe(move |_| hits2_.set(hits2_.get() + 1)).is_ok(),
        "survivor clone refused a subscription after a sibling clone was dropped"
    );

    incr.stabilise();
    assert_eq!(other.try_get_value(), Ok(1));
    assert_eq!(o1.try_get_value(), Ok(1));
    assert_eq!(hits.get(), 1, "first subscription must have been initialised");
    assert_eq!(hits2.get(), 1, "second subscription must have been initialised");
}
