// Replay for C19 / D1: the height limit after set_max_height_allowed(N) must be N (as after new_with_height(N)).
// Copied into <scratch copy of /repo>/tests/ by `./check C19 --replay`.
use incremental::*;

/// var (height 1 at top scope) + n maps => greatest height n + 1
fn chain(state: &IncrState, n: usize) -> Observer<i32> {
    let v = state.var(1);
    let mut i = v.watch();
    for _ in 0..n {
        i = i.map(|x| x + 1);
    }
    let o = i.observe();
    std::mem::forget(v);
    o
}

#[test]
fn new_with_height_exact() {
    let s = IncrState::new_with_height(5);
    let o = chain(&s, 4); // height 5
    s.stabilise();
    assert_eq!(o.value(), 5);
}

#[test]
#[should_panic(expected = "max allowed 5")]
fn new_with_height_rejects_taller() {
    let s = IncrState::new_with_height(5);
    let _o = chain(&s, 5); // height 6
    s.stabilise();
}

#[test]
fn grow_then_height_n_is_accepted() {
    let s = IncrState::new_with_height(5);
    s.set_max_height_allowed(10);
    let o = chain(&s, 9); // height 10
    s.stabilise();
    assert_eq!(o.value(), 10);
}

#[test]
#[should_panic(expected = "max allowed 10")]
fn grow_then_taller_is_rejected() {
    let s = IncrState::new_with_height(5);
    s.set_max_height_allowed(10);
    let _o = chain(&s, 10); // height 11
    s.stabilise();
}

#[test]
fn shrink_at_quiescent_point() {
    let s = IncrState::new_with_height(10);
    let o = chain(&s, 2); // height 3 in use
    s.stabilise();
    s.set_max_height_allowed(3);
    let o2 = chain(&s, 2);
    s.stabilise();
    assert_eq!(o.value(), 3);
    assert_eq!(o2.value(), 3);
}

#[test]
#[should_panic(expected = "max allowed 3")]
fn shrink_then_taller_is_rejected() {
    let s = IncrState::new_with_height(10);
    s.set_max_height_allowed(3);
    let _o = chain(&s, 3); // height 4
    s.stabilise();
}
