// Replay for C14 / D5: a dependency added (from a child's function) to an expert node that already ran, on a
// child that already has a value, must have its change callback invoked before the node's next recompute.
// Copied into <scratch copy of /repo>/tests/ by `./check C14 --replay`.
use std::{cell::RefCell, rc::Rc};

use incremental::{expert::*, IncrState};

#[test]
fn callback_of_dependency_added_after_first_run_is_invoked() {
    let state = IncrState::new();
    let a = state.var(10i32);
    let b = state.var(20i32);
    // keep both inputs necessary and valued independently of the expert node
    let _oa = a.observe();
    let _ob = b.observe();
    let which = state.var(0u8);

    let seen: Rc<RefCell<Option<i32>>> = Rc::new(RefCell::new(None));
    let current: Rc<RefCell<Option<Dependency<i32>>>> = Rc::new(RefCell::new(None));

    let node = Node::<i32>::new(&state.weak(), {
        let seen = seen.clone();
        move || seen.borrow().expect("change callback of the current dependency was never invoked")
    });
    let weak = node.weak();
    let (aw, bw) = (a.watch(), b.watch());
    let chooser = which.map({
        let seen = seen.clone();
        let current = current.clone();
        move |&w| {
            let target = if w == 0 { &aw } else { &bw };
            seen.borrow_mut().take(); // forget the previous dependency's value
            let seen_ = seen.clone();
            let dep = weak.add_dependency_with(target, move |v: &i32| {
                seen_.borrow_mut().replace(*v);
            });
            if let Some(prev) = current.borrow_mut().replace(dep) {
                weak.remove_dependency(prev);
            }
        }
    });
    node.add_dependency(&chooser);
    let o = node.watch().observe();
    state.stabilise();
    assert_eq!(o.value(), 10);
    // switch the dynamic dependency to `b`, which already has a value and does not change
    which.set(1);
    state.stabilise();
    assert_eq!(o.value(), 20);
}
