// Replay for C14 / D7: the link-time change callback is due only for "every dependency added since then whose
// child already has a value"; a dependency on a never-computed child must not panic (Edge::on_change unwrapped
// the child's value).  Reachable since the D5 repair runs the parent's edge callback at link time.
// Copied into <scratch copy of /repo>/tests/ by `./check C14 --replay`.
use std::cell::Cell;
use std::collections::BTreeMap;
use std::rc::Rc;

use incremental::expert::Node;
use incremental::IncrState;
use incremental_map::prelude::*;

#[test]
fn fresh_child_added_to_running_expert() {
    let incr = IncrState::new();
    let ctl = incr.var(0i32);
    let src = incr.var(5i32);
    let cur = Rc::new(Cell::new(0));
    let e = Node::<i32>::new(&incr.weak(), {
        let cur = cur.clone();
        move || cur.get()
    });
    let w = e.weak();
    let srcw = src.watch();
    let m = ctl.watch().map(move |&n| {
        if n == 1 {
            let fresh = srcw.map(|x| x + 1); // never computed yet: no value at link time
            let cur = cur.clone();
            w.add_dependency_with(&fresh, move |v| cur.set(*v));
        }
    });
    e.add_dependency(&m);
    let o = e.watch().observe();
    incr.stabilise();
    assert_eq!(o.try_get_value(), Ok(0));
    ctl.set(1);
    incr.stabilise();
    assert_eq!(o.try_get_value(), Ok(6));
}

#[test]
fn mapi_add_key_later() {
    let incr = IncrState::new();
    let mut m = BTreeMap::new();
    m.insert(1, 10);
    let v = incr.var(m.clone());
    let out = v.watch().incr_mapi_(|_k, val| val.map(|x| x + 1));
    let o = out.observe();
    incr.stabilise();
    assert_eq!(o.value().get(&1), Some(&11));
    m.insert(2, 20);
    v.set(m.clone());
    incr.stabilise();
    assert_eq!(o.value().get(&2), Some(&21));
    m.insert(1, 100);
    v.set(m.clone());
    incr.stabilise();
    assert_eq!(o.value().get(&1), Some(&101));
}
