// Replay for C19 / C13 (D9): after the height-limit panic "the handles can still be dropped afterwards": the panic
// may strike while a multi-input node is being linked to its inputs (first input linked, second not yet), and tearing
// that half-linked node down must not panic again.
// Copied into <scratch copy of /repo>/tests/ by `./check C19 --replay`.
use incremental::*;
use std::panic::{catch_unwind, AssertUnwindSafe};

#[test]
fn handles_can_be_dropped_after_a_height_limit_panic() {
    let s = IncrState::new_with_height(5);
    let v = s.var(1);
    let other = s.var(10);
    let mut top = v.watch();
    for _ in 0..5 {
        top = top.map(|x| x + 1); // height 6 > limit 5
    }
    let both = top.map2(&other, |a, b| a + b);
    let o = both.observe();
    let r = catch_unwind(AssertUnwindSafe(|| s.stabilise()));
    let msg = *r.expect_err("stabilise must panic").downcast::<String>().expect("panic message");
    assert!(msg.contains("max allowed 5"), "{msg}");
    // dropping everything afterwards must complete without a second panic
    let dropped = catch_unwind(AssertUnwindSafe(move || {
        drop(o);
        drop(both);
        drop(top);
        drop(v);
        drop(other);
        drop(s);
    }));
    assert!(dropped.is_ok(), "second panic while dropping handles after the height-limit panic");
}
