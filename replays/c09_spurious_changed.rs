// Replay for C09 / D4: subscribers must receive Changed only when the observed value changed.
// Copied into <scratch copy of /repo>/tests/ by `./check C09 --replay`.
use incremental::*;
use std::cell::RefCell;
use std::rc::Rc;

fn logger(log: &Rc<RefCell<Vec<String>>>, tag: &'static str) -> impl FnMut(Update<&i32>) + 'static {
    let l = log.clone();
    move |u| l.borrow_mut().push(format!("{tag}:{:?}", u.cloned()))
}

#[test]
fn extra_observer_does_not_cause_changed() {
    let s = IncrState::new();
    let v = s.var(1);
    let o = v.observe();
    let log = Rc::new(RefCell::new(vec![]));
    o.subscribe(logger(&log, "a"));
    s.stabilise();
    assert_eq!(*log.borrow(), vec!["a:Initialised(1)"]);
    let o2 = v.observe(); // extra observer on the same node
    s.stabilise();
    assert_eq!(*log.borrow(), vec!["a:Initialised(1)"]);
    o.subscribe(logger(&log, "b")); // extra subscription
    s.stabilise();
    assert_eq!(*log.borrow(), vec!["a:Initialised(1)", "b:Initialised(1)"]);
    v.set(2);
    s.stabilise();
    {
        let mut l = log.borrow().clone();
        l.sort();
        assert_eq!(l, vec!["a:Changed(2)", "a:Initialised(1)", "b:Changed(2)", "b:Initialised(1)"]);
    }
    v.set(2); // equal value: cutoff, no Changed
    s.stabilise();
    assert_eq!(log.borrow().len(), 4);
    drop(o2);
    s.stabilise();
    assert_eq!(log.borrow().len(), 4);
}

#[test]
fn sibling_update_does_not_cause_changed() {
    let s = IncrState::new();
    let a = s.var(1);
    let b = s.var(10);
    let sum = a.map2(&b, |x, y| x + y);
    let parity = sum.map(|x| x % 2);
    let o = parity.observe();
    let log = Rc::new(RefCell::new(vec![]));
    o.subscribe(logger(&log, "p"));
    s.stabilise();
    a.set(3); // sum changes, parity does not
    s.stabilise();
    let o_sum = sum.observe();
    s.stabilise();
    assert_eq!(*log.borrow(), vec!["p:Initialised(1)"]);
    b.set(11);
    s.stabilise();
    assert_eq!(*log.borrow(), vec!["p:Initialised(1)", "p:Changed(0)"]);
    let _ = o_sum;
}
