// Replay for C11 / D3 (in-crate: reads the private per-node handler counter).
// Appended to <scratch copy of /repo>/src/internal_observer.rs by `./check C11 --replay`.
#[cfg(test)]
mod vx_replay_c11 {
    use crate::node::ErasedNode;
    use crate::IncrState;

    #[test]
    fn handler_count_equals_registered_handlers() {
        let s = IncrState::new();
        let v = s.var(1);
        let w = v.watch();
        let o = v.observe();
        let t0 = o.subscribe(|_| {}); // subscribed while Created: counted when the observer is linked
        s.stabilise();
        assert_eq!(w.node.num_on_update_handlers().get(), 1);
        let t1 = o.subscribe(|_| {});
        let t2 = o.subscribe(|_| {});
        assert_eq!(w.node.num_on_update_handlers().get(), 3);
        o.unsubscribe(t1).unwrap();
        assert_eq!(w.node.num_on_update_handlers().get(), 2);
        s.unsubscribe(t2);
        assert_eq!(w.node.num_on_update_handlers().get(), 1);
        o.unsubscribe(t0).unwrap();
        assert_eq!(w.node.num_on_update_handlers().get(), 0);
        drop(o);
        s.stabilise();
        assert_eq!(w.node.num_on_update_handlers().get(), 0);
    }
}
