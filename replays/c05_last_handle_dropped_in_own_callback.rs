// Replay for C05 / C09 (D10): "work for a subgraph stops at the first stabilise after its last observer is gone"; "no
// callback runs after ... dropping the last observer handle". With `Rc::strong_count(&self.internal) <= 2` as the
// last-handle test in `impl Drop for Observer` (tree 5a01aa0), a last handle dropped from inside the observer's own
// subscription callback saw count 3 (handle + all_observers + the temporary upgrade in run_on_update_handlers), was
// never disallowed, and its cone kept being recomputed (3 invocations instead of 1).
// Copied into <scratch copy of /repo>/tests/ by `./check C05 --replay`.

use incremental::{IncrState, Observer, Update};
use std::cell::{Cell, RefCell};
use std::rc::Rc;

fn counter() -> Rc<Cell<u32>> {
    Rc::new(Cell::new(0))
}

thread_local! {
    // where the test parks the only handle of the observer, for the callback to find
    static PARKED: RefCell<Option<Observer<i32>>> = RefCell::new(None);
}

#[test]
fn one_shot_observer_dropped_from_its_own_subscription_stops_all_work() {
    let incr = IncrState::new();

    let calls = counter();
    let v = incr.var(1i32);
    let m = {
        let calls = calls.clone();
        v.map(move |&x| {
            calls.set(calls.get() + 1);
            x * 2
        })
    };

    let seen = Rc::new(RefCell::new(Vec::new()));
    let o = m.observe();
    {
        let seen = seen.clone();
        o.subscribe(move |upd: Update<&i32>| {
            seen.borrow_mut().push(upd.cloned());
            // got our value: we are done with this observer, drop its one and only handle
            PARKED.with(|p| drop(p.borrow_mut().take()));
        });
    }
    PARKED.with(|p| *p.borrow_mut() = Some(o));

    incr.stabilise();
    assert_eq!(calls.get(), 1, "computed once for the then-live observer");
    assert_eq!(&*seen.borrow(), &[Update::Initialised(2)]);
    assert!(PARKED.with(|p| p.borrow().is_none()), "the callback dropped the observer");

    // No observer handle exists any more. The first stabilise after the drop unlinks it ...
    incr.stabilise();

    // ... and from then on variable writes cost nothing.
    let recomputed = incr.stats().recomputed;
    v.set(2);
    incr.stabilise();
    v.set(3);
    incr.stabilise();
    assert_eq!(
        calls.get(),
        1,
        "map function invoked although the last observer was dropped two stabilises ago"
    );
    assert_eq!(incr.stats().recomputed, recomputed);
    assert_eq!(incr.stats().necessary, 0, "nothing is necessary without observers");
    assert_eq!(seen.borrow().len(), 1, "and its subscription must be dead too");
}

/// Same thing with clones: every clone but one is dropped normally, the last one goes inside the
/// callback. Also uses a captured cell instead of a thread-local to hand the handle over.
#[test]
fn last_clone_dropped_inside_callback_still_counts_as_last() {
    let incr = IncrState::new();

    let calls = counter();
    let sel = incr.var(true);
    let v = incr.var(10i32);
    let expensive = {
        let calls = calls.clone();
        v.map(move |&x| {
            calls.set(calls.get() + 1);
            x + 1
        })
    };
    let cheap = incr.constant(0i32);
    let b = sel.bind(move |&s| if s { expensive.clone() } else { cheap.clone() });

    let parked: Rc<RefCell<Option<Observer<i32>>>> = Rc::new(RefCell::new(None));
    let o = b.observe();
    let o_clone = o.clone();
    {
        let parked = parked.clone();
        o.subscribe(move |upd| {
            if let Update::Changed(_) = upd {
                drop(parked.borrow_mut().take());
            }
        });
    }
    *parked.borrow_mut() = Some(o);

    incr.stabilise(); // Initialised(11): callback keeps the observer
    assert_eq!(calls.get(), 1);
    assert_eq!(o_clone.value(), 11);
    drop(o_clone); // not the last handle: observer stays alive
    incr.stabilise();
    assert_eq!(incr.stats().necessary > 0, true);

    v.set(20);
    incr.stabilise(); // Changed(21): callback drops the last handle
    assert_eq!(calls.get(), 2);
    assert!(parked.borrow().is_none());

    incr.stabilise(); // unlinks
    v.set(30);
    sel.set(true);
    incr.stabilise();
    assert_eq!(calls.get(), 2, "subgraph still computed after its last observer was dropped");
    assert_eq!(incr.stats().necessary, 0);
}
