#!/usr/bin/env python3
"""Validate seeded mutations delivered by independent sub-agents and file them under /verif/seeded/.
usage: validate_seed.py <prop> <agent OUT dir>   (e.g. C18 /tmp/seed-C18/OUT)
For each m1/m2: copy /repo HEAD to a scratch dir, apply patch, run the whole suite (must pass), run the
demo (must fail), revert, run the demo (must pass).  Writes seeded/<prop>-mK/{patch.diff,demo.rs,notes.md,meta.json}."""
import json, os, shutil, subprocess, sys, time

prop, out = sys.argv[1], sys.argv[2]
TAG = sys.argv[3] if len(sys.argv) > 3 else ''
SCR = '/var/tmp/verif-seedval-%s' % prop
ENV = dict(os.environ, CARGO_TARGET_DIR=SCR + '/target', RUST_BACKTRACE='0', CARGO_NET_OFFLINE='true')

def sh(cmd, cwd, timeout=3000):
    p = subprocess.run(cmd, cwd=cwd, shell=True, capture_output=True, text=True, env=ENV, timeout=timeout)
    return p.returncode, p.stdout + p.stderr

def suite(cwd):
    rc, o = sh('cargo test --workspace --no-fail-fast --offline', cwd)
    fails = [l for l in o.split('\n') if l.startswith('test ') and 'FAILED' in l]
    return rc == 0 and not fails, fails[:5], o[-1500:]

def demo(cwd, name, release):
    rc, o = sh('cargo test --offline %s --test %s' % ('--release' if release else '', name), cwd)
    return rc == 0, o[-2500:]

os.makedirs(SCR, exist_ok=True)
if not os.path.isdir(SCR + '/target'):
    subprocess.run('rsync -a /repo/target/ %s/target/' % SCR, shell=True)
for k in ('m1', 'm2', 'm3'):
    src = os.path.join(out, k)
    if not os.path.exists(os.path.join(src, 'patch.diff')):
        continue
    repo = SCR + '/repo'
    shutil.rmtree(repo, ignore_errors=True)
    os.makedirs(repo)
    subprocess.run('git -C /repo archive HEAD | tar -x -C %s' % repo, shell=True, check=True)   # HEAD, not the working tree: /repo may be carrying a seeded patch at this moment
    subprocess.run('git init -q && git add -A && git -c user.email=a@b -c user.name=x commit -qm base', cwd=repo, shell=True, check=True)
    meta = dict(property=prop, mutation=TAG + k, source='independent sub-agent (given only the property text and a scratch worktree)',
                base_commit=subprocess.run('git -C /repo rev-parse HEAD', shell=True, capture_output=True, text=True).stdout.strip())
    rc, o = sh('git apply --check %s/patch.diff' % src, repo)
    meta['applies'] = rc == 0
    if rc != 0:
        meta['apply_error'] = o[-800:]
    else:
        name = 'vxdemo_%s_%s' % (prop.lower(), k)
        release = '--release' in open(os.path.join(src, 'demo.rs')).read()[:1500]
        sh('git apply %s/patch.diff' % src, repo)
        ok, fails, tail = suite(repo)
        shutil.copy(os.path.join(src, 'demo.rs'), '%s/tests/%s.rs' % (repo, name))
        meta['suite_passes_with_change'] = ok
        meta['suite_failures_with_change'] = fails
        d_ok, d_out = demo(repo, name, release)
        meta['demo_fails_with_change'] = not d_ok
        meta['demo_profile'] = 'release' if release else 'debug'
        meta['demo_output_with_change'] = d_out[-1200:]
        sh('git apply -R %s/patch.diff' % src, repo)
        d_ok2, d_out2 = demo(repo, name, release)
        meta['demo_passes_without_change'] = d_ok2
        if not d_ok2:
            meta['demo_output_without_change'] = d_out2[-1200:]
        meta['ran'] = ['git apply patch.diff', 'cargo test --workspace --no-fail-fast --offline',
                       'cargo test --offline %s--test %s' % ('--release ' if release else '', name), 'git apply -R patch.diff',
                       'cargo test --offline %s--test %s' % ('--release ' if release else '', name)]
        meta['confirmed'] = bool(ok and (not d_ok) and d_ok2)
    dst = '/verif/seeded/%s-%s%s' % (prop, TAG, k)
    os.makedirs(dst, exist_ok=True)
    for f in ('patch.diff', 'demo.rs', 'notes.md'):
        if os.path.exists(os.path.join(src, f)):
            shutil.copy(os.path.join(src, f), os.path.join(dst, f))
    json.dump(meta, open(os.path.join(dst, 'meta.json'), 'w'), indent=1)
    print(prop, k, 'confirmed' if meta.get('confirmed') else 'NOT CONFIRMED', {x: meta.get(x) for x in ('applies', 'suite_passes_with_change', 'demo_fails_with_change', 'demo_passes_without_change')}, flush=True)
shutil.rmtree(SCR, ignore_errors=True)
