#!/bin/sh
# usage: try_patch.sh <patch.diff> <Cxx> [<Cxx> ...]  -- apply a patch to a scratch copy of /repo HEAD and run checks on it (no evidence is kept: VX_REPO)
P=$1; shift
D=/var/tmp/vx-try-$$
mkdir -p $D/repo && git -C /repo archive HEAD | tar -x -C $D/repo && (cd $D/repo && git init -q . && git apply $P) || { echo "patch does not apply"; rm -rf $D; exit 3; }
for c in "$@"; do
  VX_REPO=$D/repo VX_WORK=$D/work VX_EVID=$D/evid /verif/check $c 2>&1 | grep -E "^(OK|VIOLATION|UNDECIDED|KNOWN)" | cut -c1-330
done
rm -rf $D
