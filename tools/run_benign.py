#!/usr/bin/env python3
"""Apply each behaviour-preserving patch under /verif/seeded/benign/ to a scratch copy of /repo's HEAD (never to /repo
itself), run EVERY claimed check on it (quick tier, in parallel, each with its own work and evidence directory), remove
the copy.  A check must exit 0 on such a tree; exit 1 is a false alarm, exit 2 an undecided run.
usage: run_benign.py [name ...]    writes /verif/seeded/BENIGN_RESULTS.json"""
import json, os, shutil, subprocess, sys
from concurrent.futures import ThreadPoolExecutor
ROOT = '/verif'
BD = ROOT + '/seeded/benign'
names = sys.argv[1:] or sorted(d for d in os.listdir(BD) if os.path.isdir(BD + '/' + d))
props = [c['property_id'] for c in json.load(open(ROOT + '/MANIFEST.json'))['checks']]
RES = ROOT + '/seeded/BENIGN_RESULTS.json'
res = json.load(open(RES)) if os.path.exists(RES) else {}
SCR = '/var/tmp/vx-benign-%d' % os.getpid()

def run(p):
    env = dict(os.environ, VX_REPO=SCR + '/repo', VX_WORK=SCR + '/work-' + p, VX_EVID=SCR + '/evid-' + p)
    r = subprocess.run([ROOT + '/check', p], capture_output=True, text=True, cwd=ROOT, env=env)
    lines = [l.replace(SCR, '<scratch>') for l in r.stdout.split('\n') if l.startswith(('VIOLATION', 'UNDECIDED', 'KNOWN'))]
    return p, dict(exit=r.returncode, lines=lines[:6])

for n in names:
    d = os.path.join(BD, n)
    shutil.rmtree(SCR, ignore_errors=True)
    os.makedirs(SCR + '/repo')
    try:
        subprocess.run('git -C /repo archive HEAD | tar -x -C %s/repo && git -C %s/repo init -q .' % (SCR, SCR), shell=True, check=True)
        a = subprocess.run(['git', '-C', SCR + '/repo', 'apply', d + '/patch.diff'], capture_output=True, text=True)
        if a.returncode != 0:
            res[n] = dict(applied=False, err=a.stderr[-300:]); print(n, 'patch does not apply'); continue
        with ThreadPoolExecutor(6) as ex:
            out = dict(ex.map(run, props))
        bad = {p: v for p, v in out.items() if v['exit'] != 0}
        res[n] = dict(applied=True, all_quiet=not bad, false_alarms=sorted(p for p, v in bad.items() if v['exit'] == 1),
                      undecided=sorted(p for p, v in bad.items() if v['exit'] == 2), detail=bad)
        print(n, 'quiet' if not bad else {p: (v['exit'], [l[:200] for l in v['lines'][:3]]) for p, v in bad.items()}, flush=True)
    finally:
        shutil.rmtree(SCR, ignore_errors=True)
        json.dump(res, open(RES, 'w'), indent=1, sort_keys=True)
