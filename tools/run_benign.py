#!/usr/bin/env python3
"""Apply each behaviour-preserving patch under /verif/seeded/benign/ to /repo, run EVERY claimed check on it (quick
tier, in parallel, each with its own work directory), undo it.  A check must exit 0 on such a tree; exit 1 is a false
alarm, exit 2 an undecided run.   usage: run_benign.py [name ...]    writes /verif/seeded/BENIGN_RESULTS.json"""
import json, os, shutil, subprocess, sys
from concurrent.futures import ThreadPoolExecutor
ROOT = '/verif'
BD = ROOT + '/seeded/benign'
names = sys.argv[1:] or sorted(d for d in os.listdir(BD) if os.path.isdir(BD + '/' + d))
props = [c['property_id'] for c in json.load(open(ROOT + '/MANIFEST.json'))['checks']]
RES = ROOT + '/seeded/BENIGN_RESULTS.json'
res = json.load(open(RES)) if os.path.exists(RES) else {}

def run(p):
    w = '/var/tmp/vxwork-%s' % p
    r = subprocess.run([ROOT + '/check', p], capture_output=True, text=True, cwd=ROOT, env=dict(os.environ, VX_WORK=w))
    shutil.rmtree(w, ignore_errors=True)
    lines = [l for l in r.stdout.split('\n') if l.startswith(('VIOLATION', 'UNDECIDED', 'KNOWN'))]
    return p, dict(exit=r.returncode, lines=lines[:6])

for n in names:
    d = os.path.join(BD, n)
    assert subprocess.run(['git', '-C', '/repo', 'status', '--porcelain'], capture_output=True, text=True).stdout.strip() == '', '/repo not clean'
    a = subprocess.run(['git', '-C', '/repo', 'apply', d + '/patch.diff'], capture_output=True, text=True)
    if a.returncode != 0:
        res[n] = dict(applied=False, err=a.stderr[-300:]); print(n, 'patch does not apply'); continue
    try:
        with ThreadPoolExecutor(6) as ex:
            out = dict(ex.map(run, props))
        bad = {p: v for p, v in out.items() if v['exit'] != 0}
        res[n] = dict(applied=True, all_quiet=not bad, false_alarms=sorted(p for p, v in bad.items() if v['exit'] == 1),
                      undecided=sorted(p for p, v in bad.items() if v['exit'] == 2), detail=bad)
        print(n, 'quiet' if not bad else {p: (v['exit'], [l[:200] for l in v['lines'][:3]]) for p, v in bad.items()}, flush=True)
    finally:
        subprocess.run(['git', '-C', '/repo', 'checkout', '--', '.'], check=True)
        json.dump(res, open(RES, 'w'), indent=1, sort_keys=True)
