#!/usr/bin/env python3
"""Apply each confirmed seeded mutation to a scratch copy of /repo's HEAD (never to /repo itself: an interrupted run once
left a seeded change in /repo's working tree), run the property's quick check on that copy (VX_REPO / VX_WORK / VX_EVID),
remove the copy.  Eight seeds at a time, each in its own scratch directory under /var/tmp.
usage: run_seeded.py [seed-dir-name ...]   (default: all under /verif/seeded)   writes /verif/seeded/RESULTS.json"""
import json, os, shutil, subprocess, sys
from concurrent.futures import ThreadPoolExecutor
ROOT = '/verif'
names = sys.argv[1:] or sorted(d for d in os.listdir(ROOT + '/seeded') if os.path.isdir(ROOT + '/seeded/' + d))
names = [n for n in names if os.path.exists(os.path.join(ROOT, 'seeded', n, 'meta.json'))]
res = json.load(open(ROOT + '/seeded/RESULTS.json')) if os.path.exists(ROOT + '/seeded/RESULTS.json') else {}


def one(n):
    d = os.path.join(ROOT, 'seeded', n)
    meta = json.load(open(d + '/meta.json'))
    prop = meta['property']
    scr = '/var/tmp/vx-seeded-%d-%s' % (os.getpid(), n)
    shutil.rmtree(scr, ignore_errors=True)
    os.makedirs(scr + '/repo')
    try:
        subprocess.run('git -C /repo archive HEAD | tar -x -C %s/repo && git -C %s/repo init -q .' % (scr, scr), shell=True, check=True)
        a = subprocess.run(['git', '-C', scr + '/repo', 'apply', d + '/patch.diff'], capture_output=True, text=True)
        if a.returncode != 0:
            print(n, 'patch does not apply', flush=True)
            return n, dict(property=prop, applied=False, err=a.stderr[-300:])
        env = dict(os.environ, VX_REPO=scr + '/repo', VX_WORK=scr + '/work', VX_EVID=scr + '/evid')
        out = {}
        for p in [prop] + meta.get('also_check', []):
            r = subprocess.run([ROOT + '/check', p], capture_output=True, text=True, cwd=ROOT, env=env)
            lines = [l.replace(scr, '<scratch>') for l in r.stdout.split('\n') if l.startswith(('VIOLATION', 'UNDECIDED', 'KNOWN', 'OK'))]
            out[p] = dict(exit=r.returncode, lines=lines[:8])
        print(n, {p: v['exit'] for p, v in out.items()}, [l[:160] for v in out.values() for l in v['lines'][:3]], flush=True)
        return n, dict(property=prop, applied=True, checks=out, detected=any(v['exit'] == 1 for v in out.values()))
    finally:
        shutil.rmtree(scr, ignore_errors=True)


with ThreadPoolExecutor(8) as ex:
    for n, r in ex.map(one, names):
        res[n] = r
        json.dump(res, open(ROOT + '/seeded/RESULTS.json', 'w'), indent=1, sort_keys=True)
print('detected %d / %d applied, exit 2 only: %d, quiet: %d' % (
    sum(1 for r in res.values() if r.get('detected')), sum(1 for r in res.values() if r.get('applied')),
    sum(1 for r in res.values() if r.get('applied') and not r.get('detected') and any(v['exit'] == 2 for v in r['checks'].values())),
    sum(1 for r in res.values() if r.get('applied') and all(v['exit'] == 0 for v in r['checks'].values()))))
