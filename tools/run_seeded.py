#!/usr/bin/env python3
"""Apply each confirmed seeded mutation to /repo, run the property's quick check, undo it straight afterwards.
usage: run_seeded.py [seed-dir-name ...]   (default: all under /verif/seeded)   writes /verif/seeded/RESULTS.json"""
import json, os, subprocess, sys
ROOT = '/verif'
names = sys.argv[1:] or sorted(d for d in os.listdir(ROOT + '/seeded') if os.path.isdir(ROOT + '/seeded/' + d))
res = json.load(open(ROOT + '/seeded/RESULTS.json')) if os.path.exists(ROOT + '/seeded/RESULTS.json') else {}
for n in names:
    d = os.path.join(ROOT, 'seeded', n)
    if not os.path.exists(d + '/meta.json'):
        continue
    meta = json.load(open(d + '/meta.json'))
    prop = meta['property']
    assert subprocess.run(['git', '-C', '/repo', 'status', '--porcelain'], capture_output=True, text=True).stdout.strip() == '', '/repo not clean'
    a = subprocess.run(['git', '-C', '/repo', 'apply', d + '/patch.diff'], capture_output=True, text=True)
    if a.returncode != 0:
        res[n] = dict(property=prop, applied=False, err=a.stderr[-300:])
        print(n, 'patch does not apply'); continue
    try:
        extra = meta.get('also_check', [])
        out = {}
        for p in [prop] + extra:
            r = subprocess.run([ROOT + '/check', p], capture_output=True, text=True, cwd=ROOT)
            lines = [l for l in r.stdout.split('\n') if l.startswith(('VIOLATION', 'UNDECIDED', 'KNOWN', 'OK'))]
            out[p] = dict(exit=r.returncode, lines=lines[:8])
        res[n] = dict(property=prop, applied=True, checks=out, detected=any(v['exit'] == 1 for v in out.values()))
        print(n, {p: v['exit'] for p, v in out.items()}, [l[:160] for v in out.values() for l in v['lines'][:3]])
    finally:
        subprocess.run(['git', '-C', '/repo', 'checkout', '--', '.'], check=True)
        json.dump(res, open(ROOT + '/seeded/RESULTS.json', 'w'), indent=1, sort_keys=True)
json.dump(res, open(ROOT + '/seeded/RESULTS.json', 'w'), indent=1, sort_keys=True)
