#!/usr/bin/env python3
"""Generate /verif/MANIFEST.json from contracts/props.py (claimed = properties whose units are all built)."""
import json, os, sys
ROOT = '/verif'
sys.path.insert(0, ROOT); sys.path.insert(0, ROOT + '/contracts')
import props as P

TEXT = {
 'C18': ('proof', 'Verus discharges contracts on the real bodies of MergeOnce::{new,next}, SymmetricDiff::next, BTreeMap::{symmetric_diff,symmetric_fold} and MergeOnceWith::next, and a machine-checked lemma derives the property clause (exactly the differing keys, once, ascending, right tag; nothing for equal maps) from those contracts for all maps over u64. Unbounded: loop invariants and inductive lemmas, no unwinding bound. (The thorough tier additionally runs a bounded Kani twin of MergeOnce - u8 arrays of length <= 3 - as a counterexample finder; it is labelled bounded in evidence and is not part of the claim.)', '4/C18'),
 'C19': ('proof', 'Verus proves, on the real bodies, that both heaps and the State configure limit N exactly (new / set_max_height_allowed), that set_height accepts h iff h <= N (ok-variant and must-panic variant of the same body), that closing a cycle or raising a node above the limit in ensure_height_requirement always panics, and that a nested stabilise panics before touching anything. Which graph shapes reach these sites is not decided (see level_note).', '4/C19'),
 'C14': ('proof', 'Verus proves the per-node latch/counter/child-list contracts of ExpertNode on the real bodies (full-view postconditions tied to a spec-level latch automaton) and lemmas about that automaton (make_stale forces exactly one recompute; invalid-dependency accounting). Dependency rewiring in node.rs is only partly under contract.', '4/C14'),
 'C10': ('proof', 'Verus proves the observer handle automaton on the real bodies: value_inner / try_get_value error table, disallow_future_use transitions, subscribe / unsubscribe (Mismatch first, dead observer unchanged, exact handler-map update), State::unsubscribe never panics, Observer::drop acts iff it is the last clone (must-call / must-not-call variants); stabilise_start and the per-observer bodies of add_new_observers / unlink_disallowed_observers / run_all (which calls are made, when, on whom, in which order). Frame obligations pin where the lifecycle states are assigned.', '4/C10'),
 'C09': ('proof', 'Verus proves the per-handler transition table (OnUpdateHandler::run), that every call of the user callback carries exactly the due update and the node\'s current value (call_requires obligations), and the end-of-stabilise classification Node::node_update (Changed iff the value changed in the stabilisation being closed). The per-item bodies of the queueing and delivery loops are under contract (must-call / never-call variants); that the loops visit every item is not.', '4/C09'),
 'C08': ('proof', 'Verus proves the five write paths of Var on the real bodies for both engine phases (immediate outside stabilise, parked and composed in program order during stabilise), stabilise-end application, and the staleness bookkeeping of did_set_var_while_not_stabilising.', '4/C08'),
 'C11': ('other', 'Two clauses only. Handler counts: Verus proves that subscribe / unsubscribe / linking / unlinking move the per-node handler counter by exactly the handlers registered (composition lemma). Edge bookkeeping: Verus proves on the real bodies that Node::add_parent records a new edge symmetrically on both ends, Node::remove_parent removes exactly that edge and re-slots the parent moved into the freed position symmetrically, and expert_swap_children_except_in_kind keeps both swapped edges symmetric - each with a full frame (nothing else moves). Whether these are called for the right nodes, heights, heap membership and stats().necessary are not under contract.', '4/C11'),
 'C07': ('other', 'Mechanism: try_get_value gating (no reads while Stabilising, NeverStabilised until linked) proved by Verus; Var writes outside stabilise proved to leave node values untouched; frame obligations pin the writers of node values, of the engine status and of the observer states.', '4/C07'),
 'C13': ('other', 'Mechanism: nested stabilise must panic before touching anything (Verus, must-panic variant), reads refuse while Stabilising, Var writes while Stabilising only park; frame obligations: status is written only by stabilise_start/stabilise_end, no catch_unwind, statement order of stabilise.', '4/C13'),
 'C06': ('other', 'Mechanism: Node::maybe_change_value and the map_ref arm of Node::child_changed ask the cutoff with (old,new), only when there is an old value, and tell the change step exactly whether it suppressed the change (Verus, permission predicates); Cutoff::should_cutoff forwards (old,new) in order for every cutoff kind; the staleness predicates edge_is_stale / is_stale / needs_to_be_computed are proved against their specification; the recompute heap returns the lowest queued node and never loses one (remove_min / insert / counting lemmas); frame obligations pin where changed_at / recomputed_at are written.', '4/C06'),
 'C05': ('other', 'Mechanism: is_necessary and check_if_unnecessary proved against their specification, var writes queue the watch node only when necessary, last-clone drop always disallows; frame obligations: every recompute_heap.insert is dominated by a necessity test or assertion, disallowed observers are unlinked at stabilise start.', '4/C05'),
}

claimed, na = [], []
for pid, cfg in sorted(P.PROPS.items()):
    built = all(os.path.exists('%s/contracts/%s/unit.rs' % (ROOT, u)) for u in cfg['units'])
    if not built:
        na.append(dict(property_id=pid, reason='units %s not built yet in this round (planned; see DESIGN.md 4)' % [u for u in cfg['units'] if not os.path.exists('%s/contracts/%s/unit.rs' % (ROOT, u))]))
        continue
    lvl, text, ref = TEXT[pid]
    claimed.append(dict(
        property_id=pid,
        quick_cmd='./check %s --tier quick' % pid,
        thorough_cmd='./check %s --tier thorough' % pid,
        evidence_file='/verif/evidence/%s.json' % pid,
        replay_cmd_template='./check %s --replay {path}' % pid,
        engine='vx',
        level_claimed=dict(category=lvl, text=text, design_ref='DESIGN.md section ' + ref),
        level_note='Trusted: the specs in contracts/*/unit.rs marked external_body / assume_specification / uninterp / axiom (listed per run in evidence coverage.trusted_base); extraction rules R2-R8 (DESIGN.md 2.2: logging erased, trait impl -> inherent impl, type parameters := u64, Cell/RefCell of self erased so RefCell borrow panics are not covered); Verus + Z3. Not covered: ' + '; '.join(cfg['uncovered']),
        technique='contract-based deductive verification (Verus) of mechanically extracted real function bodies, incl. must-call / never-call / order variants of the same bodies' + ('; syntactic frame obligations (where a field may be written, a few call orders)' if lvl == 'other' or pid in ('C19', 'C10', 'C09', 'C08', 'C14') else '') + ('; on a violated MergeOnce obligation a bounded Kani harness over the same real text searches for a concrete input, replayed on the real crate' if pid == 'C18' else ''),
    ))
for pid, reason in sorted(P.NOT_APPLICABLE.items()):
    na.append(dict(property_id=pid, reason=reason))
man = dict(
    version=1,
    setup_cmd='python3 -c "import sys; sys.exit(0)" && verus --version >/dev/null',
    hooks=dict(guard='cormacrelf_incremental_rs_verif', enable='none needed: checks read /repo sources and verify extracted function text; replay tests are added to scratch copies only',
               baseline_off_cmd='cd /repo && cargo test --workspace --no-fail-fast --offline', source_commits=[], add_only=True),
    engines=[dict(name='vx', path='/verif/vx', serves_properties=[c['property_id'] for c in claimed],
                  kind_free_text='Python extractor (mechanical, rule-based) + Verus driver + canary/vacuity guards + syntactic frame scans')],
    checks=claimed,
    notes='Exit codes of ./check: 0 all obligations discharged (or only known findings), 1 VIOLATION, 2 undecided (anchor lost / unsupported construct / rlimit / vacuity guard). Genuine defects found and repaired are listed in known_findings.json (fixed entries).',
    not_applicable=na,
)
json.dump(man, open(ROOT + '/MANIFEST.json', 'w'), indent=1)
print('claimed', [c['property_id'] for c in claimed], 'n/a', [x['property_id'] for x in na])
