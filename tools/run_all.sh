#!/bin/sh
# run every claimed check on the current tree (quick tier unless $1 is given); prints one line per property
cd /verif || exit 2
rc=0
for p in $(python3 -c "import json;print(' '.join(c['property_id'] for c in json.load(open('MANIFEST.json'))['checks']))"); do
  out=$(./check $p --tier ${1:-quick} 2>&1); r=$?
  echo "$p rc=$r $(echo "$out" | grep -E '^(OK|VIOLATION|KNOWN-FINDING|UNDECIDED)' | head -3 | tr '\n' ' ')"
  [ $r -ne 0 ] && rc=1
done
exit $rc
