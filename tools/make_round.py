#!/usr/bin/env python3
"""Create the scratch worktrees and the prompts for one round of independent sub-agents.
usage: make_round.py <round-tag e.g. s5>     -> /tmp/<tag>-<Cxx>-{m,b}/OUT/PROMPT.txt (m = breaking changes, b = benign refactorings)
The agents get the property text (statement, quantifier, anchors) and their own worktree; nothing from /verif."""
import json, os, subprocess, sys
tag = sys.argv[1]
props = {}
for l in open('/verif/properties.jsonl'):
    p = json.loads(l); props[p['id']] = p
ids = [c['property_id'] for c in json.load(open('/verif/MANIFEST.json'))['checks']]
head = '''You are helping test a verification harness for the Rust crate `incremental` (cormacrelf/incremental-rs, a port of Jane Street's Incremental: self-adjusting computation). You have your own scratch git worktree of the repository at {wt} (a cargo workspace: crate `incremental` at the root, `incremental-map` and `incremental-macros` as members). Work ONLY inside {wt}. Do not read or touch /repo, /verif, or any other /tmp/{tag}-* directory. There is no network; build with `--offline` (e.g. `cd {wt} && cargo test --workspace --offline`). A warmed `target/` directory is already there.

Here is a semantic property the crate is supposed to satisfy:

  {id} — {title}
  Statement: {statement}
  Quantified over: {quant}
  Code the property depends on (files): {files}
  Mechanisms: {mech}
'''
brk = head + '''
Your task: produce TWO DIFFERENT, independent changes (mutations) to the crate's source (src/ or incremental-map/src/, not tests) each of which BREAKS this property, while the crate still compiles and the ENTIRE existing test suite still passes (`cargo test --workspace --offline` — all tests that pass before must pass after; check in both cases). Each change should be realistic (the kind of slip a maintainer could make in a refactor or an "optimisation": an off-by-one, a swapped argument, a dropped or misplaced statement, a wrong condition, a stale flag not reset, a counter updated in the wrong direction, an early return added, a check moved after the effect it guards...) and small (a few lines). Prefer changes that need something SPECIFIC to manifest — a particular multi-step sequence of operations, an unusual input, a particular order of creation/observation/drop, a debug-vs-release difference, or two cooperating sites that each look fine alone — not ones that ordinary use would expose at once. Look beyond the most obvious function: helpers, callers, less-travelled branches (error paths, release-only paths, the second of two similar implementations) are all fair game, and at least one of your two changes should be in such a less obvious place. It is fine (even welcome) if a change is dressed up as a refactoring: renamed locals, a statement moved into a new helper, a rewritten condition - as long as it really changes behaviour.

For each of the two mutations deliver, under {wt}/OUT/m1/ and {wt}/OUT/m2/:
  - patch.diff : a `git diff` (against the worktree's HEAD, paths relative to the repo root, appliable with `git apply`) containing ONLY the source change (not the demo test);
  - demo.rs    : a self-contained integration test file (to be dropped into `tests/` of the root crate — or of incremental-map, say which in notes) with one or more #[test]s that FAIL with the change applied and PASS on the unchanged tree. State at the top of the file how to run it (e.g. `cargo test --offline --test demo`). If the demonstration needs access to crate-private items, instead provide it as a `#[cfg(test)] mod` snippet plus exact instructions where to append it — but prefer the public API;
  - notes.md   : which part of the property it breaks, what it needs in order to manifest, and exactly what you ran (commands + outcome: full suite with the change = all pass; demo with the change = fails; demo without = passes).

Procedure: read the relevant source first; make change 1; run the full suite; write the demo; verify it fails with and passes without (use `git stash` / `git checkout -- .` to flip); save the artefacts; then `git checkout -- .` to restore the tree and repeat for change 2. At the end leave the worktree's tracked files UNCHANGED (git status clean apart from OUT/ and target/), and reply with a short summary of the two mutations (files/lines touched, what breaks, how the demo shows it). Do not commit anything.'''
ben = head + '''
Your task is the OPPOSITE of breaking it: produce THREE DIFFERENT, independent BEHAVIOUR-PRESERVING changes to the crate's source (src/ or incremental-map/src/, not tests) in the functions this property depends on (the mechanisms listed above, the functions they call and the functions that call them). Each change must be the kind of routine edit a maintainer makes without intending any semantic change, for example: renaming local variables or closure parameters; reordering two statements that are independent of each other; extracting a few lines into a private helper function, or inlining a small helper; rewriting `if let`/`match`/`let else`/`map_or`/`?` into an equivalent form; turning an early `return` into an `else` branch or vice versa; hoisting a repeated sub-expression into a `let`; switching a `for` loop to an iterator chain or `while let` or back; changing or adding tracing/log messages, comments and doc comments; re-formatting; replacing an expression by an obviously equivalent one (`a < b` vs `b > a`, `!x.is_empty()` vs `x.len() > 0`, `x += 1` vs `x = x + 1`); merging two adjacent `if`s with the same condition; introducing a named constant. The behaviour must stay EXACTLY the same for every input in BOTH debug and release builds — same results, same side effects in the same order where order is observable, same panics under the same conditions (do not remove, weaken, strengthen or move assertions past side effects). Make each change non-trivial (touch 5-25 lines, ideally inside one or two of the functions that carry the property) and make the three changes different in kind (e.g. one rename+reorder, one helper extraction/inlining, one control-flow or loop-form rewrite). Do NOT change public signatures, struct fields or file layout.

For each of the three changes deliver, under {wt}/OUT/b1/, {wt}/OUT/b2/, {wt}/OUT/b3/:
  - patch.diff : a `git diff` (against the worktree's HEAD, paths relative to the repo root, appliable with `git apply`) containing ONLY the source change;
  - notes.md   : what you changed, why it is behaviour preserving (argue it for debug and release, including panics and ordering), and what you ran (the full suite `cargo test --workspace --offline` must pass with the change).

Procedure: read the relevant source first; make change 1; run the full suite; save the artefacts; `git checkout -- .` to restore the tree; repeat. At the end leave the worktree's tracked files UNCHANGED (git status clean apart from OUT/ and target/), and reply with a short summary of the three changes (files/functions touched, kind of edit). Do not commit anything.'''
for id in ids:
    p = props[id]
    for kind, t in (('m', brk), ('b', ben)):
        wt = '/tmp/%s-%s-%s' % (tag, id, kind)
        if not os.path.isdir(wt):
            subprocess.run(['git', '-C', '/repo', 'worktree', 'add', '--detach', wt, 'HEAD'], check=True, capture_output=True)
            subprocess.run('cp -a /repo/target %s/target' % wt, shell=True, check=True)
        os.makedirs(wt + '/OUT', exist_ok=True)
        mech = '; '.join('%s (%s)' % (m['name'], m['where']) for m in p['anchors'].get('mechanism', []))
        open(wt + '/OUT/PROMPT.txt', 'w').write(t.format(wt=wt, tag=tag, id=id, title=p['title'], statement=p['statement'],
                                                       quant=p['quantifier']['text'], files=', '.join(p['anchors']['files']), mech=mech))
print('ready:', ' '.join('/tmp/%s-%s-{m,b}' % (tag, i) for i in ids))
