#![feature(allocator_api)]
// Unit edges (C11, edge bookkeeping clause): the parent/child index arrays maintained by Node::add_parent and
// Node::remove_parent (src/node.rs).  R5 on the child (`self`); the parent's (and, in remove_parent, the moved
// parent's) ParentChildIndices are `&mut` parameters (R5p) - aliasing between them (duplicate parents, a node
// that is its own parent's sibling entry) is thereby dropped and stated as a precondition where it matters.
use vstd::prelude::*;
use std::rc::Rc;

verus! {

//@include vx_prelude.rs

#[verifier::external_body]
pub struct WeakNode { _p: u8 }
pub uninterp spec fn weak_of(n: &Node) -> WeakNode;
impl Clone for WeakNode {
    #[verifier::external_body]
    fn clone(&self) -> (r: Self) ensures r == *self { unimplemented!() }
}

//@extract struct ParentChildIndices
//@ file: src/node.rs
//@ name: ParentChildIndices
//@ rule R4: `SmallVec<[i32; 2]>` => `Vec<i32>` x1
//@ rule R4: `SmallVec<[i32; 1]>` => `Vec<i32>` x1
//@end

pub struct Node {
    pub parent_child_indices: ParentChildIndices,
    pub parents: Vec<WeakNode>,
    pub ident: u64,
}

pub uninterp spec fn weak_target(w: &WeakNode) -> Option<Rc<Node>>;
impl WeakNode {
    #[verifier::external_body]
    fn upgrade(&self) -> (r: Option<Rc<Node>>) ensures r == weak_target(self) { unimplemented!() }
}
#[verifier::external_body]
fn weak_thin_ptr_eq(one: &WeakNode, two: &WeakNode) -> (r: bool) ensures r == (*one == *two) { unimplemented!() }

impl Node {
    #[verifier::external_body]
    fn erased(&self) -> (r: &Node) ensures r == self { unimplemented!() }
    #[verifier::external_body]
    fn weak(&self) -> (r: WeakNode) ensures r == weak_of(self) { unimplemented!() }

//@extract fn Node::add_parent
//@ file: src/node.rs
//@ impl: impl Node
//@ name: add_parent
//@ as: fn add_parent(&mut self, child_index: i32, parent_ref: &Node, parent_indices: &mut ParentChildIndices)
//@ attr: #[verifier::exec_allows_no_decreases_clause]
//@ cells@child: parent_child_indices, parents
//@ rule R5p: `let parent_indices_cell = parent.parent_child_indices();` => `` x1
//@ rule R5p: `let mut parent_indices = parent_indices_cell.borrow_mut();` => `` x1
//@ props: C11
//@ loop 0:
//@|     invariant
//@|         parent_index == old(self).parents@.len(), child_index >= 0, child_parents@ == old(self).parents@, *parent_indices == *old(parent_indices),
//@|         child_indices.my_parent_index_in_child_at_index == old(self).parent_child_indices.my_parent_index_in_child_at_index,
//@|         child_indices.my_child_index_in_parent_at_index@.len() >= old(self).parent_child_indices.my_child_index_in_parent_at_index@.len(),
//@|         child_indices.my_child_index_in_parent_at_index@.len() <= old(self).parent_child_indices.my_child_index_in_parent_at_index@.len() + parent_index + 1,
//@|         old(self).parent_child_indices.my_child_index_in_parent_at_index@.len() < usize::MAX - 1 && old(self).parents@.len() < i32::MAX,
//@|         old(parent_indices).my_parent_index_in_child_at_index@.len() < usize::MAX - 1,
//@|         forall|j: int| 0 <= j < old(self).parent_child_indices.my_child_index_in_parent_at_index@.len() ==> child_indices.my_child_index_in_parent_at_index@[j] == old(self).parent_child_indices.my_child_index_in_parent_at_index@[j],
//@ loop 1:
//@|     invariant
//@|         parent_index == old(self).parents@.len(), child_index >= 0, child_parents@ == old(self).parents@,
//@|         child_indices.my_parent_index_in_child_at_index == old(self).parent_child_indices.my_parent_index_in_child_at_index,
//@|         child_indices.my_child_index_in_parent_at_index@.len() > parent_index && child_indices.my_child_index_in_parent_at_index@[parent_index as int] == child_index,
//@|         forall|j: int| 0 <= j < old(self).parent_child_indices.my_child_index_in_parent_at_index@.len() && j != parent_index ==> child_indices.my_child_index_in_parent_at_index@[j] == old(self).parent_child_indices.my_child_index_in_parent_at_index@[j],
//@|         parent_indices.my_child_index_in_parent_at_index == old(parent_indices).my_child_index_in_parent_at_index,
//@|         parent_indices.my_parent_index_in_child_at_index@.len() >= old(parent_indices).my_parent_index_in_child_at_index@.len(),
//@|         parent_indices.my_parent_index_in_child_at_index@.len() <= old(parent_indices).my_parent_index_in_child_at_index@.len() + child_index + 1,
//@|         old(parent_indices).my_parent_index_in_child_at_index@.len() < usize::MAX - 1,
//@|         forall|j: int| 0 <= j < old(parent_indices).my_parent_index_in_child_at_index@.len() ==> parent_indices.my_parent_index_in_child_at_index@[j] == old(parent_indices).my_parent_index_in_child_at_index@[j],
//@ contract:
//@|     requires
//@|         child_index >= 0, old(self).parents@.len() < i32::MAX,
//@|         old(self).parent_child_indices.my_child_index_in_parent_at_index@.len() < usize::MAX - 1 && old(parent_indices).my_parent_index_in_child_at_index@.len() < usize::MAX - 1,
//@|     ensures
//@|         final(self).parents@ == old(self).parents@.push(weak_of(parent_ref)), // [parent-appended-others-kept]
//@|         final(self).parent_child_indices.my_child_index_in_parent_at_index@.len() > old(self).parents@.len()
//@|             && final(self).parent_child_indices.my_child_index_in_parent_at_index@[old(self).parents@.len() as int] == child_index, // [child-records-under-which-input-slot-the-new-parent-knows-it]
//@|         final(parent_indices).my_parent_index_in_child_at_index@.len() > child_index
//@|             && final(parent_indices).my_parent_index_in_child_at_index@[child_index as int] == old(self).parents@.len(), // [parent-records-at-which-position-the-child-lists-it]
//@|         forall|j: int| 0 <= j < old(self).parent_child_indices.my_child_index_in_parent_at_index@.len() && j != old(self).parents@.len()
//@|             ==> final(self).parent_child_indices.my_child_index_in_parent_at_index@[j] == old(self).parent_child_indices.my_child_index_in_parent_at_index@[j], // [other-parent-slots-untouched]
//@|         forall|j: int| 0 <= j < old(parent_indices).my_parent_index_in_child_at_index@.len() && j != child_index
//@|             ==> final(parent_indices).my_parent_index_in_child_at_index@[j] == old(parent_indices).my_parent_index_in_child_at_index@[j], // [other-child-slots-untouched]
//@|         final(self).parent_child_indices.my_parent_index_in_child_at_index == old(self).parent_child_indices.my_parent_index_in_child_at_index
//@|             && final(parent_indices).my_child_index_in_parent_at_index == old(parent_indices).my_child_index_in_parent_at_index, // [frame]
//@end

//@extract fn Node::remove_parent
//@ file: src/node.rs
//@ impl: impl ErasedNode for Node
//@ name: remove_parent
//@ as: fn remove_parent(&mut self, child_index: i32, parent_ref: &Node, parent_indices: &mut ParentChildIndices, end_p_indices: &mut ParentChildIndices)
//@ cells@child: parent_child_indices, parents
//@ tracing: yes
//@ rule R5p: `let parent_indices_cell = parent.parent_child_indices();` => `` x1
//@ rule R5p: `let mut parent_indices = parent_indices_cell.borrow_mut();` => `` x1
//@ rule R5p: `drop(parent_indices);` => `` x1
//@ rule R5p: `let end_p_indices_cell = end_p.parent_child_indices();` => `` x1
//@ rule R5p: `let mut end_p_indices = end_p_indices_cell.borrow_mut();` => `` x1
//@ props: C11
//@ contract:
//@|     requires
//@|         // the edge being removed is recorded on both ends with matching indices:
//@|         0 <= child_index < old(parent_indices).my_parent_index_in_child_at_index@.len(),
//@|         0 <= old(parent_indices).my_parent_index_in_child_at_index@[child_index as int] < old(self).parents@.len(),
//@|         old(self).parents@[old(parent_indices).my_parent_index_in_child_at_index@[child_index as int] as int] == weak_of(parent_ref),
//@|         old(self).parent_child_indices.my_child_index_in_parent_at_index@.len() >= old(self).parents@.len(),
//@|         // the parent listed last (which takes the freed position) records the child under a valid slot:
//@|         0 <= old(self).parent_child_indices.my_child_index_in_parent_at_index@[old(self).parents@.len() - 1] < old(end_p_indices).my_parent_index_in_child_at_index@.len(),
//@|     ensures
//@|         final(parent_indices).my_parent_index_in_child_at_index@ == old(parent_indices).my_parent_index_in_child_at_index@.update(child_index as int, -1i32), // [parent-forgets-the-edge-and-nothing-else]
//@|         final(self).parents@ == old(self).parents@.update(old(parent_indices).my_parent_index_in_child_at_index@[child_index as int] as int, old(self).parents@[old(self).parents@.len() - 1]).drop_last(), // [the-last-parent-takes-the-freed-position]
//@|         final(self).parent_child_indices.my_child_index_in_parent_at_index@[old(self).parents@.len() - 1] == -1, // [freed-last-slot-is-cleared]
//@|         ({
//@|             let pi = old(parent_indices).my_parent_index_in_child_at_index@[child_index as int] as int;
//@|             let last = old(self).parents@.len() - 1;
//@|             let moved = old(self).parent_child_indices.my_child_index_in_parent_at_index@[last];
//@|             (pi < last && weak_target(&old(self).parents@[last]) is Some) ==> (
//@|                 final(self).parent_child_indices.my_child_index_in_parent_at_index@[pi] == moved
//@|                 && final(end_p_indices).my_parent_index_in_child_at_index@ == old(end_p_indices).my_parent_index_in_child_at_index@.update(moved as int, pi as i32))
//@|         }), // [the-moved-parent-and-the-child-agree-on-the-new-position]
//@|         final(self).parent_child_indices.my_parent_index_in_child_at_index == old(self).parent_child_indices.my_parent_index_in_child_at_index
//@|             && final(parent_indices).my_child_index_in_parent_at_index == old(parent_indices).my_child_index_in_parent_at_index
//@|             && final(end_p_indices).my_child_index_in_parent_at_index == old(end_p_indices).my_child_index_in_parent_at_index, // [frame]
//@end

//@extract fn Node::remove_parent!never_linked
//@ file: src/node.rs
//@ impl: impl ErasedNode for Node
//@ name: remove_parent
//@ as: fn remove_parent__of_an_edge_the_parent_never_recorded(&mut self, child_index: i32, parent_ref: &Node, parent_indices: &mut ParentChildIndices, end_p_indices: &mut ParentChildIndices)
//@ cells@child: parent_child_indices, parents
//@ tracing: yes
//@ rule R5p: `let parent_indices_cell = parent.parent_child_indices();` => `` x1
//@ rule R5p: `let mut parent_indices = parent_indices_cell.borrow_mut();` => `` x1
//@ rule R5p: `drop(parent_indices);` => `` x*
//@ rule R5p: `let end_p_indices_cell = end_p.parent_child_indices();` => `` x*
//@ rule R5p: `let mut end_p_indices = end_p_indices_cell.borrow_mut();` => `` x*
//@ props: C19 C13 C11
//@ contract:
//@|     requires
//@|         child_index >= 0,
//@|         child_index >= old(parent_indices).my_parent_index_in_child_at_index@.len(),   // the parent was torn down before it linked this input (e.g. a panic while it became necessary)
//@|     ensures
//@|         *final(self) == *old(self) && *final(parent_indices) == *old(parent_indices) && *final(end_p_indices) == *old(end_p_indices), // [tearing-down-a-half-linked-node-touches-nothing-and-does-not-panic]
//@end

//@extract fn Node::expert_swap_children_except_in_kind
//@ file: src/node.rs
//@ impl: impl ErasedNode for Node
//@ name: expert_swap_children_except_in_kind
//@ as: fn expert_swap_children_except_in_kind(&self, child_index1: i32, child_index2: i32, parent_pci: &mut ParentChildIndices, child1_pci: &mut ParentChildIndices, child2_pci: &mut ParentChildIndices)
//@ rule R8 re: `vx_assert\(child[12]\.ptr_eq\(&\*parent\.slow_get_child\(child_index[12]\)\)\);` => `` x*
//@ rule R5p re: `let (parent|child1|child2)_pci_ = \w+\.parent_child_indices\(\);` => `` x3
//@ rule R5p re: `let mut (parent|child1|child2)_pci = \w+_pci_\.borrow_mut\(\);` => `` x3
//@ props: C11 C14
//@ contract:
//@|     requires
//@|         // both edges are recorded symmetrically before the swap (distinct children: duplicates share one RefCell, dropped by R5p)
//@|         0 <= child_index1 < old(parent_pci).my_parent_index_in_child_at_index@.len(), 0 <= child_index2 < old(parent_pci).my_parent_index_in_child_at_index@.len(),
//@|         child_index1 != child_index2,
//@|         0 <= old(parent_pci).my_parent_index_in_child_at_index@[child_index1 as int] < old(child1_pci).my_child_index_in_parent_at_index@.len(),
//@|         0 <= old(parent_pci).my_parent_index_in_child_at_index@[child_index2 as int] < old(child2_pci).my_child_index_in_parent_at_index@.len(),
//@|         old(child1_pci).my_child_index_in_parent_at_index@[old(parent_pci).my_parent_index_in_child_at_index@[child_index1 as int] as int] == child_index1,
//@|         old(child2_pci).my_child_index_in_parent_at_index@[old(parent_pci).my_parent_index_in_child_at_index@[child_index2 as int] as int] == child_index2,
//@|     ensures
//@|         ({
//@|             let p1 = old(parent_pci).my_parent_index_in_child_at_index@[child_index1 as int];
//@|             let p2 = old(parent_pci).my_parent_index_in_child_at_index@[child_index2 as int];
//@|             &&& final(parent_pci).my_parent_index_in_child_at_index@ == old(parent_pci).my_parent_index_in_child_at_index@.update(child_index1 as int, p2).update(child_index2 as int, p1)
//@|             &&& final(child1_pci).my_child_index_in_parent_at_index@ == old(child1_pci).my_child_index_in_parent_at_index@.update(p1 as int, child_index2)
//@|             &&& final(child2_pci).my_child_index_in_parent_at_index@ == old(child2_pci).my_child_index_in_parent_at_index@.update(p2 as int, child_index1)
//@|         }), // [both-edges-stay-symmetric-under-the-swapped-slots-and-nothing-else-moves]
//@end
}

} // verus!
fn main() {}
