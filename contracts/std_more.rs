// ---- R8: more specs of std functions that a rewritten body may reach for (trusted; each is listed in evidence) ----
// (Vec::truncate already has a spec in vstd)
pub assume_specification<T, U, F: FnOnce(T) -> U>[ Option::<T>::map_or ](o: Option<T>, default: U, f: F) -> (r: U)
    requires o is Some ==> f.requires((o.unwrap(),)),
    ensures o is None ==> r == default, o is Some ==> f.ensures((o.unwrap(),), r);
