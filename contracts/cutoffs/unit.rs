// Unit cutoffs (C06): the two places where a node's cutoff is consulted - Node::maybe_change_value (every node kind) and
// the map_ref arm of Node::child_changed - and what is done with its answer.  Everything else they touch is opaque.
// Decided: the cutoff is asked with (old value, new value) in that order, only when there is an old value; a first
// value always counts as a change; the new value is stored; the commit step is told exactly whether the cutoff
// suppressed the change, and is handed the old value.
use vstd::prelude::*;
use std::rc::Rc;
use std::cell::Cell;

verus! {

//@include vx_prelude.rs

#[verifier::external_type_specification]
#[verifier::external_body]
#[verifier::reject_recursive_types(T)]
pub struct ExCell<T: ?Sized>(Cell<T>);
pub assume_specification<T>[ Cell::<T>::set ](c: &Cell<T>, v: T);
pub assume_specification<T>[ core::mem::replace ](dest: &mut T, src: T) -> (r: T)
    ensures r == *old(dest), *final(dest) == src;

// ---- opaque values and cutoff -------------------------------------------------------------------------------------
#[verifier::external_body]
pub struct DynValue { _p: u8 }                 // dyn ValueInternal
#[verifier::external_body]
pub struct BoxedValue { _p: u8 }               // SmallBox<dyn ValueInternal>
pub uninterp spec fn boxed_ref(b: &BoxedValue) -> &DynValue;
impl BoxedValue {
    #[verifier::external_body]
    pub fn as_ref(&self) -> (r: &DynValue) ensures r == boxed_ref(self) { unimplemented!() }
}
/// permission predicate: the (old, new) pair the cutoff may be asked about in the current call
pub uninterp spec fn may_ask_cutoff(old: &DynValue, new: &DynValue) -> bool;
/// the cutoff's answer (it is a user function: uninterpreted)
pub uninterp spec fn cutoff_says(old: &DynValue, new: &DynValue) -> bool;
#[verifier::external_body]
pub struct ErasedCutoff { _p: u8 }
impl ErasedCutoff {
    #[verifier::external_body]
    pub fn should_cutoff(&mut self, a: &DynValue, b: &DynValue) -> (r: bool)
        requires may_ask_cutoff(a, b),
        ensures r == cutoff_says(a, b),
    { unimplemented!() }
}
#[verifier::external_body]
pub struct NodeRefS { _p: u8 }
#[verifier::external_body]
pub struct StateS { _p: u8 }

pub uninterp spec fn may_commit(old: Option<&DynValue>, did_change: bool, run_child_changed: bool) -> bool;

pub struct Node {
    pub value_opt: Option<BoxedValue>,
    pub cutoff: ErasedCutoff,
}

impl Node {
    #[verifier::external_body]
    fn maybe_change_value_manual(&mut self, old_value_opt: Option<&DynValue>, did_change: bool, run_child_changed: bool, state: &StateS) -> (r: Option<NodeRefS>)
        requires may_commit(old_value_opt, did_change, run_child_changed),
        ensures final(self).value_opt == old(self).value_opt,
    { unimplemented!() }

//@extract fn Node::maybe_change_value
//@ file: src/node.rs
//@ impl: impl Node
//@ name: maybe_change_value
//@ as: fn maybe_change_value(&mut self, value: BoxedValue, state: &StateS) -> (r: Option<NodeRefS>)
//@ cells: value_opt, cutoff
//@ rule R5 re: `&\*\*(\w+)` => `\1.as_ref()` x*
//@ rule R5 re: `(\w+)\s*\.\s*as_ref\(\)\s*\.\s*map\(\s*\|\s*(\w+)\s*\|\s*\2\.as_ref\(\)\s*\)` => `vx_as_dyn(&\1)` x1
//@ props: C06
//@ must_call the-new-value-is-committed-through-the-change-step: `self\s*\.\s*maybe_change_value_manual\(`
//@ contract:
//@|     requires
//@|         // the cutoff may only be asked about (the value the node held, the value just computed), in that order
//@|         forall|a: &DynValue, b: &DynValue| #![trigger may_ask_cutoff(a, b)] may_ask_cutoff(a, b) <==>
//@|             (old(self).value_opt is Some && a == boxed_ref(&old(self).value_opt.unwrap()) && b == boxed_ref(&value)),
//@|         // the change step must be told: changed iff there was no value or the cutoff did not suppress; with child_changed on
//@|         forall|o: Option<&DynValue>, d: bool, rc: bool| #![trigger may_commit(o, d, rc)] may_commit(o, d, rc) <==> (
//@|             rc && o == (match old(self).value_opt { Some(b) => Some(boxed_ref(&b)), None => None::<&DynValue> })
//@|             && d == (old(self).value_opt is None || !cutoff_says(boxed_ref(&old(self).value_opt.unwrap()), boxed_ref(&value)))),
//@|     ensures
//@|         final(self).value_opt == Some(value), // [the-node-holds-the-new-value-whether-or-not-the-cutoff-suppressed-the-change]
//@end
}

/// R5: `old_value_opt.as_ref().map(|t| &**t)` - the old boxed value seen as an optional `&dyn`
#[verifier::external_body]
fn vx_as_dyn(o: &Option<BoxedValue>) -> (r: Option<&DynValue>)
    ensures r == (match *o { Some(b) => Some(boxed_ref(&b)), None => None::<&DynValue> }),
{ unimplemented!() }

// ---- Node::child_changed, map_ref arm (prefix up to the point where the flag is stored) ----------------------------
#[verifier::external_body]
pub struct ChildNode { _p: u8 }
pub uninterp spec fn child_value(c: &ChildNode) -> Option<&DynValue>;
impl ChildNode {
    #[verifier::external_body]
    pub fn value_as_any(&self) -> (r: Option<&DynValue>) ensures r == child_value(self) { unimplemented!() }
}
pub uninterp spec fn projected<'a>(m: &'a MapRefS, v: &'a DynValue) -> &'a DynValue;
pub struct MapRefS { pub did_change: Cell<bool>, pub _mapper: u8 }
impl MapRefS {
    /// R8: `(mapref.mapper)(v)` - the user's projection (boxed FnMut): uninterpreted result
    #[verifier::external_body]
    pub fn vx_apply_mapper<'a>(&'a self, v: &'a DynValue) -> (r: &'a DynValue) ensures r == projected(self, v) { unimplemented!() }
}
#[verifier::external_body]
pub struct ExpertS { _p: u8 }
pub enum ParentError { ParentInvalidated, ChildHasNoValue }
impl ExpertS {
    #[verifier::external_body]
    pub fn run_edge_callback(&self, child_index: i32) { unimplemented!() }
}
pub enum Kind { Expert(ExpertS), MapRef(MapRefS) }
pub struct ParentNode { pub cutoff: ErasedCutoff, pub kind_: Option<Kind> }
/// R5p: `self.kind()` reads the `kind` field only (so that the cutoff cell of the same node can be borrowed mutably
/// next to it, as the RefCell in the real code allows)
#[verifier::external_body]
fn vx_kind(k: &Option<Kind>) -> (r: Option<&Kind>)
    ensures r == (match *k { Some(kk) => Some(&kk), None => None::<&Kind> }),
{ unimplemented!() }
impl ParentNode {

//@extract fn Node::child_changed@map_ref
//@ file: src/node.rs
//@ impl: impl ErasedNode for Node
//@ name: child_changed
//@ as: fn child_changed__map_ref_prefix(&mut self, child: &ChildNode, child_index: i32, old_value_opt: Option<&DynValue>) -> (r: Result<(), ParentError>)
//@ cells: cutoff
//@ cut_before: `let pci`
//@ rule R5p re: `self\s*\.\s*kind\(\)` => `vx_kind(&self.kind_)` x1
//@ rule R8 re: `\((\w+)\s*\.\s*mapper\)\(` => `\1.vx_apply_mapper(` x*
//@ rule R8 re: `(\w+)\s*\.\s*map\(\s*\|\s*(\w+)\s*\|\s*(\w+)\.vx_apply_mapper\(\s*\2\s*\)\s*\)` => `vx_project_old(\3, \1)` x1
//@ props: C06
//@ contract:
//@|     requires
//@|         // map_ref: the projection cutoff may only be asked about (projection of the child's old value, projection of its
//@|         // current value), in that order
//@|         old(self).kind_ is Some && old(self).kind_.unwrap() is MapRef ==>
//@|             forall|a: &DynValue, b: &DynValue| #![trigger may_ask_cutoff(a, b)] may_ask_cutoff(a, b) <==> (
//@|                 old_value_opt is Some && child_value(child) is Some
//@|                 && a == projected(&old(self).kind_.unwrap()->MapRef_0, old_value_opt.unwrap())
//@|                 && b == projected(&old(self).kind_.unwrap()->MapRef_0, child_value(child).unwrap())),
//@|     // [the-projection-cutoff-is-asked-with-old-projection-then-new-projection]
//@end
}

/// R8: `old_value_opt.map(|v| (mapref.mapper)(v))` - the projection of the child's old value, if it had one
#[verifier::external_body]
fn vx_project_old<'a>(m: &'a MapRefS, o: Option<&'a DynValue>) -> (r: Option<&'a DynValue>)
    ensures r == (match o { Some(v) => Some(projected(m, v)), None => None::<&DynValue> }),
{ unimplemented!() }

// ---- Node::child_changed, map_ref arm, second half: the change is forwarded to every parent with the index this node
//      has *in that parent* (an expert parent picks the edge callback by it) and the old projection ----------------------
#[verifier::external_body]
pub struct WeakParent { _p: u8 }
#[verifier::external_body]
pub struct ParentRef { _p: u8 }
pub uninterp spec fn weak_parent_target(w: &WeakParent) -> Option<Rc<ParentRef>>;
pub uninterp spec fn may_forward(child_index: i32, old: Option<&DynValue>) -> bool;
impl WeakParent {
    #[verifier::external_body]
    pub fn upgrade(&self) -> (r: Option<Rc<ParentRef>>) ensures r == weak_parent_target(self) { unimplemented!() }
}
pub struct Pci { pub my_child_index_in_parent_at_index: Vec<i32> }
pub struct MapRefSelf { pub _p: u8 }
impl ParentRef {
    #[verifier::external_body]
    pub fn child_changed(&self, child: &MapRefSelf, child_index: i32, old_value_opt: Option<&DynValue>) -> (r: Result<(), ParentError>)
        requires may_forward(child_index, old_value_opt),
    { unimplemented!() }
}
impl MapRefSelf {
//@extract loopbody Node::child_changed@map_ref/each-parent
//@ file: src/node.rs
//@ impl: impl ErasedNode for Node
//@ name: child_changed
//@ loop_containing: `\.\s*child_changed\(`
//@ tail: `Ok(())`
//@ as: fn child_changed__map_ref_each_parent(&self, vx_item: (usize, &WeakParent), pci: &Pci, self_old: Option<&DynValue>, child: &ChildNode, child_index: i32, old_value_opt: Option<&DynValue>) -> (r: Result<(), ParentError>)
//@ props: C06 C14
//@ must_call a-live-parent-is-told-of-the-change: `\.\s*child_changed\(` when `weak_parent_target(vx_item.1) is Some`
//@ contract:
//@|     requires
//@|         vx_item.0 < pci.my_child_index_in_parent_at_index@.len(),
//@|         forall|i: i32, o: Option<&DynValue>| #![trigger may_forward(i, o)] may_forward(i, o) <==> (i == pci.my_child_index_in_parent_at_index@[vx_item.0 as int] && o == self_old),
//@|     // [each-parent-is-told-with-this-nodes-index-in-that-parent-and-the-old-projection]  (the enclosing function's own
//@|     //  parameters - the index of the *child* in this node, the child's old value - are in scope and must not be what is forwarded)
//@end
}

} // verus!
fn main() {}
