"""Frame obligations per property (see DESIGN.md §2.3).  Each entry returns a dict(name, kind, ok, hits, detail, sample).
They pin *where* a piece of engine state may be written and in which order a few top-level steps happen; they are
syntactic and are reported at level `other`, never as proof."""
from vx import frame as F

ST = ['src/state.rs']
NODE = ['src/node.rs']
SRC = None  # all of src/ and incremental-map/src/


def frames(prop):
    fs = []

    def add(props, thunk):
        if prop in props:
            fs.append(thunk())

    # -- engine status: written only at the stabilise boundaries, never on an unwind path -----------------
    add({'C13', 'C07', 'C19'}, lambda: F.only_in(
        'frame/status-written-only-by-stabilise_start-and-stabilise_end', r'\bstatus\s*\.\s*(set|replace|swap)\(',
        {'stabilise_start', 'stabilise_end'}, SRC, min_hits=3))
    add({'C13'}, lambda: F.absent('frame/no-catch_unwind-in-the-crate', r'\bcatch_unwind\b', SRC))
    add({'C13', 'C19', 'C07', 'C05'}, lambda: F.in_order(
        'frame/stabilise-asserts-not-stabilising-then-start-then-recompute-loop-then-end', 'src/state.rs', 'stabilise_debug',
        [r'assert_eq!\(\s*self\.status\.get\(\)\s*,\s*IncrStatus::NotStabilising\s*\)', r'self\.stabilise_start\(\)',
         r'recompute_heap\.remove_min\(\)', r'self\.stabilise_end\(\)'], impl='impl State'))
    add({'C07', 'C13', 'C05'}, lambda: F.in_order(
        'frame/stabilise_start-sets-Stabilising-before-linking-and-unlinking-observers', 'src/state.rs', 'stabilise_start',
        [r'self\.status\.set\(\s*IncrStatus::Stabilising\s*\)', r'self\.add_new_observers\(\)', r'self\.unlink_disallowed_observers\(\)'],
        impl='impl State'))
    add({'C08', 'C09', 'C13'}, lambda: F.in_order(
        'frame/stabilise_end-order', 'src/state.rs', 'stabilise_end',
        [r'stabilisation_num\s*\.\s*set\(', r'set_var_stabilise_end\(\)', r'break_rc_cycle\(\)', r'is_in_handle_after_stabilisation\(\)\s*\.\s*set\(\s*false\s*\)', r'\.node_update\(\)',
         r'self\.status\.set\(\s*IncrStatus::RunningOnUpdateHandlers\s*\)', r'\.run_on_update_handlers\(',
         r'self\.status\.set\(\s*IncrStatus::NotStabilising\s*\)'], impl='impl State'))

    add({'C13', 'C07', 'C10'}, lambda: F.body_is(
        'frame/Observer::value-reads-through-try_get_value', 'src/public.rs', 'value',
        r'self\.internal\.try_get_value\(\)\.unwrap\(\)', impl='impl<T: Value> Observer<T>'))
    add({'C13', 'C07', 'C10'}, lambda: F.body_is(
        'frame/Observer::try_get_value-forwards-to-the-shared-observer', 'src/public.rs', 'try_get_value',
        r'self\.internal\.try_get_value\(\)', impl='impl<T: Value> Observer<T>'))
    # -- observer lifecycle ----------------------------------------------------------------------------------
    add({'C10', 'C07', 'C05'}, lambda: F.only_in(
        'frame/observers-become-InUse-only-in-add_new_observers', r'\.set\(\s*(ObserverState::)?InUse\s*\)',
        {'add_new_observers'}, SRC, min_hits=1))
    add({'C10'}, lambda: F.only_in(
        'frame/observers-become-Unlinked-only-in-disallow_future_use-and-unlink_disallowed_observers',
        r'\.set\(\s*(ObserverState::)?Unlinked\s*\)', {'disallow_future_use', 'unlink_disallowed_observers'}, SRC, min_hits=2))
    add({'C10'}, lambda: F.only_in(
        'frame/all_observers-filled-only-in-add_new_observers', r'\bao\.insert\(', {'add_new_observers'}, ST, min_hits=1))
    add({'C10'}, lambda: F.absent(
        'frame/all_observers-keyed-by-id', r'\bao\.insert\((?!\s*obs\.id\(\)\s*,\s*obs\.clone\(\)\s*\))', ST))
    add({'C10', 'C05', 'C07'}, lambda: F.only_in(
        'frame/clone-sentinel-touched-only-by-new-and-drop', r'\bsentinel\b', {'new', 'drop', None}, ['src/public.rs'], min_hits=4, strict=True))

    add({'C10', 'C07', 'C05', 'C09'}, lambda: F.in_order(
        'frame/add_new_observers-visits-every-queued-observer-and-handles-the-node', 'src/state.rs', 'add_new_observers',
        [r'for\s+weak\s+in\s+no\.drain\(\.\.\)', r'let\s+Some\(obs\)\s*=\s*weak\.upgrade\(\)\s*else\s*\{\s*continue',
         r'ObserverState::Created\s*=>', r'obs\.state\(\)\.set\(ObserverState::InUse\)', r'let\s+was_necessary\s*=\s*node\.is_necessary\(\)',
         r'ao\.insert\(', r'obs\.add_to_observed_node\(\)', r'node\.handle_after_stabilisation\(self\)', r'if\s+!was_necessary\s*\{',
         r'node\.became_necessary_propagate\(self\)'], impl='impl State'))
    add({'C09'}, lambda: F.in_order(
        'frame/a-changed-node-is-queued-for-its-handlers-whichever-path-changed-it', 'src/node.rs', 'maybe_change_value_manual',
        [r'if\s+did_change\s*\{', r'self\.changed_at\.set\(', r'self\.maybe_handle_after_stabilisation\(state\)', r'let\s+parents\s*='],
        impl='impl Node'))
    add({'C07', 'C10', 'C05'}, lambda: F.in_order(
        'frame/observe-counts-and-queues-the-new-observer', 'src/state.rs', 'observe',
        [r'InternalObserver::new\(incr\)', r'self\.num_active_observers\.increment\(\)', r'no\.push\(Rc::downgrade\(&internal_observer\)'], impl='impl State'))
    add({'C07', 'C10'}, lambda: F.in_order(
        'frame/a-new-observer-starts-in-Created', 'src/internal_observer.rs', 'new',
        [r'state:\s*Cell::new\(Created\)'], impl='impl<T: Value> InternalObserver<T>'))
    add({'C05', 'C10'}, lambda: F.in_order(
        'frame/unlinking-a-disallowed-observer-rechecks-the-node', 'src/state.rs', 'unlink_disallowed_observers',
        [r'for\s+obs_weak\s+in\s+disallowed\.drain\(\.\.\)', r'obs\.state\(\)\.set\(ObserverState::Unlinked\)',
         r'let\s+observing\s*=\s*obs\.observing_packed\(\)', r'obs\.remove_from_observed_node\(\)', r'ao\.remove\(&obs\.id\(\)\)',
         r'observing\.check_if_unnecessary\(self\)'], impl='impl State'))
    PV = 'impl<T: Value> Var<T>'
    add({'C08'}, lambda: F.body_is('frame/public-Var::set-forwards', 'src/public.rs', 'set', r'self\.internal\.set\(value\)', impl=PV))
    add({'C08'}, lambda: F.body_is('frame/public-Var::update-forwards', 'src/public.rs', 'update', r'self\.internal\.update\(f\)', impl=PV))
    add({'C08'}, lambda: F.body_is('frame/public-Var::modify-forwards', 'src/public.rs', 'modify', r'self\.internal\.modify\(f\);?', impl=PV))
    add({'C08'}, lambda: F.body_is('frame/public-Var::get-forwards', 'src/public.rs', 'get', r'self\.internal\.get\(\)', impl=PV))
    add({'C08'}, lambda: F.body_is('frame/public-Var::replace_with-forwards', 'src/public.rs', 'replace_with', r'self\.internal\.replace_with\(\|mutable\|f\(mutable\)\)', impl=PV))
    add({'C08'}, lambda: F.body_is('frame/public-Var::replace-is-replace_with-constant', 'src/public.rs', 'replace', r'self\.internal\.replace_with\(\|_\|value\)', impl=PV))
    # -- subscriber notifications ----------------------------------------------------------------------------
    add({'C09'}, lambda: F.only_in(
        'frame/handlers-run-only-from-stabilise_end', r'\.run_on_update_handlers\(', {'stabilise_end'}, SRC, min_hits=1))
    add({'C09'}, lambda: F.only_in(
        'frame/handler.run-called-only-by-the-two-delivery-loops', r'\bhandler\.run\(', {'run_all', 'run_on_update_handlers'}, SRC, min_hits=2))
    add({'C09', 'C10'}, lambda: F.in_order(
        'frame/run_all-guards-each-handler', 'src/internal_observer.rs', 'run_all',
        [r'handlers\.iter_mut\(\)', r'match\s+self\.state\.get\(\)', r'Disallowed\s*=>\s*\(\)', r'InUse\s*=>\s*handler\.run\('],
        impl='impl<T: Value> ErasedObserver for InternalObserver<T>'))
    add({'C09'}, lambda: F.in_order(
        'frame/try_subscribe-maps-Necessary-to-Initialised', 'src/public.rs', 'try_subscribe',
        [r'NodeUpdate::Necessary\(t\)\s*=>\s*Update::Initialised\(t\)', r'NodeUpdate::Changed\(t\)\s*=>\s*Update::Changed\(t\)',
         r'NodeUpdate::Invalidated\s*=>\s*Update::Invalidated', r'self\.internal\.subscribe\(handler\)', r'node\.handle_after_stabilisation\('],
        impl='impl<T: Value> Observer<T>'))

    # -- node values and stamps ------------------------------------------------------------------------------
    add({'C07'}, lambda: F.only_in(
        'frame/node-values-written-only-while-recomputing-or-invalidating', r'\bvalue_opt\s*\.\s*(replace|take|borrow_mut|swap|set)\(',
        {'recompute_one', 'maybe_change_value', 'invalidate_node'}, SRC, min_hits=5))
    add({'C06', 'C09'}, lambda: F.only_in(
        'frame/changed_at-written-only-on-change-or-invalidation', r'\bchanged_at\s*\.\s*(set|replace)\(',
        {'recompute_one', 'invalidate_node', 'maybe_change_value_manual'}, SRC, min_hits=3))
    add({'C06'}, lambda: F.only_in(
        'frame/recomputed_at-written-only-when-recomputing-or-invalidating', r'\brecomputed_at\s*\.\s*(set|replace)\(',
        {'recompute_one', 'invalidate_node'}, SRC, min_hits=2))
    add({'C06'}, lambda: F.in_order(
        'frame/maybe_change_value-consults-cutoff-with-old-then-new', 'src/node.rs', 'maybe_change_value',
        [r'let\s+old_value_opt\s*=\s*self\.value_opt\.take\(\)', r'\.map_or\(\s*true\s*,\s*\|old\|\s*!cutoff\.should_cutoff\(&\*\*old,\s*value\.as_ref\(\)\)\)',
         r'self\.value_opt\.replace\(Some\(value\)\)', r'self\.maybe_change_value_manual\('], impl='impl Node'))
    add({'C06'}, lambda: F.in_order(
        'frame/bind-lhs-change-never-cuts-off', 'src/incr.rs', 'bind',
        [r'set_cutoff\(&\*lhs_change,\s*Cutoff::Never\)'], impl=None))
    add({'C06'}, lambda: F.in_order(
        'frame/erased-cutoff-forwards-old-then-new', 'src/cutoff.rs', 'should_cutoff',
        [r'\(&mut \*self\.should_cutoff\)\(a,\s*b\)'], impl='impl ErasedCutoff'))
    add({'C06'}, lambda: F.in_order(
        'frame/erased-cutoff-downcasts-then-asks-the-typed-cutoff-with-old-then-new', 'src/cutoff.rs', 'new',
        [r'let Some\(a\) = a\.as_any\(\)\.downcast_ref::<T>\(\)', r'let Some\(b\) = b\.as_any\(\)\.downcast_ref::<T>\(\)', r'cutoff\.should_cutoff\(a,\s*b\)'],
        impl='impl ErasedCutoff'))
    add({'C19', 'C11'}, lambda: F.only_in(
        'frame/the-raw-height-setter-is-used-only-by-the-checked-one', r'\b(?!state\b|ah_heap\b)\w+\.set_height\(',
        {'adjust_heights_heap.rs::set_height', 'adjust_heights_heap.rs::ensure_height_requirement'},
        ['src/node.rs', 'src/state.rs', 'src/adjust_heights_heap.rs', 'src/recompute_heap.rs', 'src/kind/bind.rs', 'src/scope.rs'], min_hits=2))
    add({'C19'}, lambda: F.only_in(
        'frame/node-height-assigned-only-in-Node::set_height', r'\bheight\s*\.\s*(set|replace)\(', {'set_height'}, NODE, min_hits=1))

    # -- OrdMap adapter (im_rc enumerates; the crate only re-tags): argument order of the dependency calls -----------
    add({'C18'}, lambda: F.in_order(
        'frame/ordmap-symmetric_diff-is-self.diff(other)-retagged', 'incremental-map/src/im_rc.rs', 'symmetric_diff',
        [r'self\.diff\(other\)\s*\.map\(DiffElement::from_diff_item\)'],
        impl="impl<'a, K: Ord + 'a, V: PartialEq + 'a> SymmetricDiffMap<'a, K, V> for OrdMap<K, V>"))
    add({'C18'}, lambda: F.body_is(
        'frame/btreemap-symmetric_fold-is-exactly-self.symmetric_diff(other).fold(init,f)', 'incremental-map/src/symmetric_fold.rs', 'symmetric_fold',
        r'self\.symmetric_diff\(other\)\.fold\(init,f\)', impl='impl<K: Ord, V: PartialEq> SymmetricFoldMap<K, V> for BTreeMap<K, V>'))
    add({'C18'}, lambda: F.body_is(
        'frame/rc-btreemap-symmetric_fold-derefs-both-and-folds-the-diff', 'incremental-map/src/symmetric_fold.rs', 'symmetric_fold',
        r'letself_target=self\.deref\(\);letother_target=other\.deref\(\);self_target\.symmetric_diff\(other_target\)\.fold\(init,f\)',
        impl='impl<K: Ord, V: PartialEq> SymmetricFoldMap<K, V> for Rc<BTreeMap<K, V>>'))
    add({'C18'}, lambda: F.body_is(
        'frame/btreemap-symmetric_diff-builds-the-iterator-from-self-then-other', 'incremental-map/src/symmetric_fold.rs', 'symmetric_diff',
        r'SymmetricDiff\{self_:self,other,keys:MergeOnce::new\(self\.keys\(\),other\.keys\(\)\),\}',
        impl="impl<'a, K: Ord + 'a, V: PartialEq + 'a> SymmetricDiffMap<'a, K, V> for BTreeMap<K, V>"))
    add({'C18'}, lambda: F.body_is(
        'frame/ordmap-symmetric_fold-is-exactly-self.symmetric_diff(other).fold(init,f)', 'incremental-map/src/im_rc.rs', 'symmetric_fold',
        r'self\.symmetric_diff\(other\)\.fold\(init,f\)',
        impl='impl<K: Ord, V: PartialEq> SymmetricFoldMap<K, V> for OrdMap<K, V>'))
    add({'C18'}, lambda: F.body_is(
        'frame/ordmap-symmetric_diff-is-exactly-self.diff(other)-retagged', 'incremental-map/src/im_rc.rs', 'symmetric_diff',
        r'self\.diff\(other\)\.map\(DiffElement::from_diff_item\)',
        impl="impl<'a, K: Ord + 'a, V: PartialEq + 'a> SymmetricDiffMap<'a, K, V> for OrdMap<K, V>"))

    # -- graph surgery helpers that neither verifier reaches: statement order pinned ---------------------------
    EN = 'impl ErasedNode for Node'
    add({'C19', 'C11'}, lambda: F.in_order(
        'frame/adjust_heights-checks-parent-and-bind-scope-edges-of-every-popped-node', 'src/adjust_heights_heap.rs', 'adjust_heights',
        [r'while\s+let\s+Some\(child\)\s*=\s*self\.remove_min\(\)',
         r'if\s+child\.is_in_recompute_heap\(\)\s*\{\s*rch\.increase_height\(&child\);\s*\}\s*child\.ensure_parent_height_requirements\(self,\s*&original_child,\s*&original_parent\);\s*child\.adjust_heights_bind_lhs_change\(self,\s*&original_child,\s*&original_parent\);'],
        impl='impl AdjustHeightsHeap'))
    add({'C11'}, lambda: F.in_order(
        'frame/bind-rhs-swap-keeps-the-old-rhs-necessary-while-the-new-one-is-linked', 'src/node.rs', 'change_child_bind_rhs',
        [r'old_child_node\.remove_parent\(child_index,\s*bind_main\)', r'old_child_node\.force_necessary\(\)\.set\(true\)',
         r'new_child\.state_add_parent\(child_index,\s*bind_main,\s*state\)', r'old_child_node\.force_necessary\(\)\.set\(false\)',
         r'old_child_node\.check_if_unnecessary\(state\)'], impl=EN))
    add({'C11', 'C14'}, lambda: F.in_order(
        'frame/expert-invalidate-propagates-to-dependants', 'src/state/expert.rs', 'invalidate',
        [r'node\.invalidate_node\(&state\)', r'state\.propagate_invalidity\(\)'], impl=None))
    add({'C14', 'C11'}, lambda: F.in_order(
        'frame/every-push-of-an-invalid-child-is-counted-before-the-parent-is-queued', 'src/state.rs', 'propagate_invalidity',
        [r'if\s+node\.should_be_invalidated\(\)', r'node\.invalidate_node\(self\)', r'node\.propagate_invalidity_helper\(\);',
         r'if\s+!node\.is_in_recompute_heap\(\)\s*\{\s*self\.recompute_heap\.insert\(node\)'], impl='impl State'))
    add({'C14', 'C09', 'C06'}, lambda: F.occurs(
        'frame/every-parent-of-a-changed-node-is-told-unconditionally', 'src/node.rs', 'maybe_change_value_manual',
        r'if\s+run_child_changed\s*\{\s*let\s+result\s*=\s*p\.child_changed\(self,\s*child_index,\s*old_value_opt\)', 2, impl='impl Node'))
    add({'C05', 'C14', 'C11'}, lambda: F.body_is(
        'frame/removing-an-expert-dependency-unlinks-and-rechecks-the-child', 'src/node.rs', 'expert_remove_child',
        r'letchild=dyn_edge\.erased_input\(\);child\.remove_parent\(child_index,self\);child\.check_if_unnecessary\(state\);', impl=EN))
    add({'C05'}, lambda: F.in_order(
        'frame/an-invalidated-necessary-node-releases-its-children', 'src/node.rs', 'invalidate_node',
        [r'if\s+self\.is_necessary\(\)\s*\{\s*self\.remove_children\(state\);'], impl=EN))

    # -- thin public wrappers and constructors the properties silently depend on: one-line forwarders pinned -----------
    IS = 'impl IncrState'
    IN = 'impl<T: Value> Incr<T>'
    OB = 'impl<T: Value> Observer<T>'
    add({'C19', 'C13', 'C07'}, lambda: F.body_is('frame/IncrState::stabilise-forwards', 'src/public.rs', 'stabilise', r'self\.inner\.stabilise\(\);', impl=IS))
    add({'C19', 'C13'}, lambda: F.body_is('frame/State::stabilise-forwards', 'src/state.rs', 'stabilise', r'self\.stabilise_debug\(None\)', impl='impl State'))
    add({'C08'}, lambda: F.body_is('frame/IncrState::is_stable-forwards', 'src/public.rs', 'is_stable', r'self\.inner\.is_stable\(\)', impl=IS))
    add({'C19'}, lambda: F.body_is('frame/IncrState::set_max_height_allowed-forwards', 'src/public.rs', 'set_max_height_allowed',
                                   r'self\.inner\.set_max_height_allowed\(new_max_height\)', impl=IS))
    add({'C19'}, lambda: F.body_is('frame/IncrState::new_with_height-forwards', 'src/public.rs', 'new_with_height',
                                   r'letinner=State::new_with_height\(max_height\);Self\{inner\}', impl=IS))
    add({'C19'}, lambda: F.in_order('frame/State::new_with_height-configures-both-heaps-with-N', 'src/state.rs', 'new_with_height',
                                    [r'recompute_heap:\s*RecomputeHeap::new\(max_height\)', r'adjust_heights_heap:\s*RefCell::new\(AdjustHeightsHeap::new\(max_height\)\)',
                                     r'status:\s*Cell::new\(IncrStatus::NotStabilising\)'], impl='impl State'))
    add({'C10', 'C09'}, lambda: F.body_is('frame/IncrState::unsubscribe-forwards', 'src/public.rs', 'unsubscribe', r'self\.inner\.unsubscribe\(token\)', impl=IS))
    add({'C10', 'C09'}, lambda: F.body_is('frame/Observer::unsubscribe-forwards', 'src/public.rs', 'unsubscribe', r'self\.internal\.unsubscribe\(token\)', impl=OB))
    add({'C10', 'C09'}, lambda: F.body_is('frame/Observer::subscribe-is-try_subscribe', 'src/public.rs', 'subscribe', r'self\.try_subscribe\(on_update\)\.unwrap\(\)', impl=OB))
    add({'C05', 'C07', 'C10'}, lambda: F.body_is('frame/Incr::observe-registers-with-the-state', 'src/incr.rs', 'observe',
                                          r'letincr=self\.clone\(\);letinternal=incr\.node\.state\(\)\.observe\(incr\);Observer::new\(internal\)', impl=IN))
    add({'C06'}, lambda: F.body_is('frame/Incr::set_cutoff-forwards', 'src/incr.rs', 'set_cutoff', r'self\.node\.set_cutoff\(cutoff\);', impl=IN))
    add({'C06'}, lambda: F.body_is('frame/Incr::set_cutoff_fn-forwards', 'src/incr.rs', 'set_cutoff_fn', r'self\.node\.set_cutoff\(Cutoff::Fn\(cutoff_fn\)\);', impl=IN))
    add({'C06'}, lambda: F.body_is('frame/Incr::set_cutoff_fn_boxed-forwards', 'src/incr.rs', 'set_cutoff_fn_boxed',
                                   r'self\.node\.set_cutoff\(Cutoff::FnBoxed\(Box::new\(cutoff_fn\)\)\);', impl=IN))
    add({'C06'}, lambda: F.body_is('frame/Node::set_cutoff-installs-the-erased-cutoff', 'src/node.rs', 'set_cutoff',
                                   r'self\.cutoff\.replace\(cutoff\.erased\(\)\);', impl='impl<R: Value> Incremental<R> for Node'))
    add({'C06'}, lambda: F.body_is('frame/Cutoff::erased-wraps-itself', 'src/cutoff.rs', 'erased', r'ErasedCutoff::new\(self\)', impl='impl<T: ?Sized> Cutoff<T>'))
    add({'C06'}, lambda: F.in_order('frame/nodes-start-with-the-PartialEq-cutoff', 'src/node.rs', 'create',
                                    [r'let\s+cutoff\s*=\s*Cutoff::<R>::PartialEq\.erased\(\)', r'Self::create_inner\(state,\s*created_in,\s*kind,\s*cutoff\)'], impl='impl Node'))
    add({'C09'}, lambda: F.in_order('frame/Incr::on_update-registers-a-handler-created-now', 'src/incr.rs', 'on_update',
                                    [r'let\s+now\s*=\s*state\.stabilisation_num\.get\(\)', r'OnUpdateHandler::new\(now,', r'self\.node\.add_on_update_handler\(handler\)'], impl=IN))
    add({'C09', 'C11'}, lambda: F.in_order('frame/Node::add_on_update_handler-counts-it', 'src/node.rs', 'add_on_update_handler',
                                    [r'self\.num_on_update_handlers\.increment\(\)', r'ouh\.push\(Box::new\(handler\)\)'], impl='impl<R: Value> Incremental<R> for Node'))

    # -- expert API surface (src/kind/expert.rs `public`, src/state/expert.rs) --------------------------------------
    EP = 'impl<T: Value> Node<T>'
    add({'C14'}, lambda: F.in_order('frame/a-new-expert-node-starts-unforced-uncounted-and-will-fire-all-callbacks', 'src/kind/expert.rs', 'new_obs',
                                    [r'force_stale:\s*false\.into\(\)', r'num_invalid_children:\s*0\.into\(\)', r'will_fire_all_callbacks:\s*true\.into\(\)'], impl='impl ExpertNode'))
    add({'C14'}, lambda: F.in_order('frame/a-new-edge-keeps-its-callback-and-has-no-index', 'src/kind/expert.rs', 'new',
                                    [r'on_change:\s*RefCell::new\(on_change\)', r'index:\s*None\.into\(\)'], impl='impl<T> Edge<T>'))
    add({'C14'}, lambda: F.in_order('frame/add_dependency_with-registers-the-callback', 'src/kind/expert.rs', 'add_dependency_with',
                                    [r'Edge::new\(on\.clone\(\),\s*Some\(Box::new\(on_change\)\)\)', r'expert::add_dependency\(&self\.incr\.node\.packed\(\),\s*edge\)'], impl=EP))
    add({'C14'}, lambda: F.in_order('frame/add_dependency-links-the-edge', 'src/kind/expert.rs', 'add_dependency',
                                    [r'Edge::new\(on\.clone\(\),\s*None\)', r'expert::add_dependency\(&self\.incr\.node\.packed\(\),\s*edge\)'], impl=EP))
    add({'C14'}, lambda: F.in_order('frame/remove_dependency-unlinks-that-edge', 'src/kind/expert.rs', 'remove_dependency',
                                    [r'let\s+edge\s*=\s*dep\.edge\.upgrade\(\)\.unwrap\(\)', r'expert::remove_dependency\(&\*self\.incr\.node,\s*&\*edge\)'], impl=EP))
    add({'C14'}, lambda: F.body_is('frame/expert-public-make_stale-forwards', 'src/kind/expert.rs', 'make_stale',
                                   r'expert::make_stale\(&self\.incr\.node\.packed\(\)\)', impl=EP))
    add({'C14'}, lambda: F.body_is('frame/expert-public-invalidate-forwards', 'src/kind/expert.rs', 'invalidate',
                                   r'expert::invalidate\(&self\.incr\.node\.packed\(\)\)', impl=EP))
    add({'C14'}, lambda: F.body_is('frame/state-expert-add_dependency-forwards', 'src/state/expert.rs', 'add_dependency', r'node\.expert_add_dependency\(edge\);'))
    add({'C14'}, lambda: F.body_is('frame/state-expert-remove_dependency-forwards', 'src/state/expert.rs', 'remove_dependency', r'node\.expert_remove_dependency\(dyn_edge\);'))
    add({'C14'}, lambda: F.body_is('frame/state-expert-make_stale-forwards', 'src/state/expert.rs', 'make_stale', r'node\.expert_make_stale\(\);'))
    add({'C14'}, lambda: F.in_order('frame/an-expert-node-recomputes-only-after-before_main_computation', 'src/node.rs', 'recompute_one',
                                    [r'Kind::Expert\(e\)\s*=>\s*match\s+e\.before_main_computation\(\)', r'Err\(Invalid\)\s*=>\s*\{\s*self\.invalidate_node\(state\);\s*state\.propagate_invalidity\(\);',
                                     r'Ok\(\(\)\)\s*=>', r'e\.recompute\.borrow_mut\(\)\.as_mut\(\)', r'self\.maybe_change_value\(value,\s*state\)'], impl='impl ErasedNode for Node'))
    add({'C14', 'C06'}, lambda: F.in_order('frame/child_changed-runs-the-edge-callback-of-an-expert-parent', 'src/node.rs', 'child_changed',
                                    [r'Kind::Expert\(expert\)\s*=>\s*expert\.run_edge_callback\(child_index\)'], impl='impl ErasedNode for Node'))

    # -- only needed nodes are scheduled -------------------------------------------------------------------
    add({'C05'}, lambda: F.each_guarded(
        'frame/every-recompute_heap.insert-is-dominated-by-a-necessity-test-or-assertion', r'recompute_heap\s*\.\s*insert\(',
        [r'is_necessary\(\)', r'needs_to_be_computed\(\)'], ['src/node.rs', 'src/state.rs', 'src/var.rs'], window=30, min_hits=9))
    return fs
