"""Frame obligations per property (see DESIGN.md §2.3).  Each entry returns a dict(name, kind, ok, hits, detail, sample).
They pin *where* a piece of engine state may be written and in which order a few top-level steps happen; they are
syntactic and are reported at level `other`, never as proof."""
from vx import frame as F

ST = ['src/state.rs']
NODE = ['src/node.rs']
SRC = None  # all of src/ and incremental-map/src/


def _bind_main_cutoff_type():
    """C06: the bind's output node gets the default (PartialEq) cutoff of the bind's *result* type: in `Incr::bind`,
    the node built around `Kind::BindMain` is created with `Node::create_rc::<R>` where `-> Incr<R>` is the result.
    (A type argument: the units are monomorphic, so this is pinned syntactically.)  Positive evidence only: another
    type argument is a violation; a different way of building the node is undecided."""
    import re
    from vx import rsrc
    from vx.rsrc import mask, AnchorLost
    from vx.template import read_repo
    name = 'frame/bind-output-node-gets-the-result-types-default-cutoff'
    try:
        text = read_repo('src/incr.rs')
        loc = rsrc.find_fn(text, 'bind', None)
    except AnchorLost as e:
        return dict(name=name, kind='frame/type-argument', ok=None, hits=0, detail=['anchor lost: %s' % e], sample=[])
    sig = text[loc['start']:loc['body_open']]
    mo = re.search(r'->\s*Incr<\s*(\w+)\s*>', mask(sig))
    body = mask(text[loc['body_open']:loc['body_close'] + 1])
    mk = re.search(r'create_rc::<\s*([^>]*?)\s*>\s*\((?:(?!create_rc)[\s\S])*?Kind::BindMain', body)
    if not mo or not mk:
        return dict(name=name, kind='frame/type-argument', ok=None, hits=0, detail=['anchor lost: `-> Incr<R>` / `create_rc::<..>(.. Kind::BindMain` not found in Incr::bind'], sample=[])
    ok = mk.group(1) == mo.group(1)
    return dict(name=name, kind='frame/type-argument', ok=ok, hits=1, sample=['create_rc::<%s> for BindMain, result Incr<%s>' % (mk.group(1), mo.group(1))],
                detail=[] if ok else ['src/incr.rs::bind: the BindMain node is created with create_rc::<%s>, the result type is %s' % (mk.group(1), mo.group(1))])


def frames(prop):
    fs = []

    def add(props, thunk):
        if prop in props:
            fs.append(thunk())

    # -- engine status: written only at the stabilise boundaries, never on an unwind path -----------------
    add({'C13', 'C07', 'C19'}, lambda: F.only_in(
        'frame/status-written-only-by-stabilise_start-and-stabilise_end', r'\bstatus\s*\.\s*(set|replace|swap)\(',
        {'stabilise_start', 'stabilise_end'}, SRC, min_hits=1))
    add({'C13'}, lambda: F.absent('frame/no-catch_unwind-in-the-crate', r'\bcatch_unwind\b', SRC))
    add({'C13', 'C19', 'C07', 'C05'}, lambda: F.in_order(
        'frame/stabilise-asserts-not-stabilising-then-start-then-recompute-loop-then-end', 'src/state.rs', 'stabilise_debug',
        [r'self\s*\.\s*stabilise_start\(\)', r'recompute_heap\s*\.\s*remove_min\(\)', r'self\s*\.\s*stabilise_end\(\)'], impl='impl State'))
    # stabilise_end: three partial orders (statements that are independent of each other may be reordered freely)
    add({'C08', 'C13'}, lambda: F.in_order(
        'frame/stabilise_end-order/parked-var-writes-are-applied-after-the-clock-ticks-and-before-dead-vars-are-unhooked', 'src/state.rs', 'stabilise_end',
        [r'stabilisation_num\s*\.\s*set\(', r'\.\s*set_var_stabilise_end\(\)', r'\.\s*break_rc_cycle\(\)'], impl='impl State'))
    add({'C09', 'C08', 'C13'}, lambda: F.in_order(
        'frame/stabilise_end-order/updates-are-classified-after-the-clock-ticks-and-delivered-under-RunningOnUpdateHandlers', 'src/state.rs', 'stabilise_end',
        [r'stabilisation_num\s*\.\s*set\(', r'\.\s*node_update\(\)', r'self\s*\.\s*status\s*\.\s*set\(\s*IncrStatus::RunningOnUpdateHandlers\s*\)',
         r'\.\s*run_on_update_handlers\(\s*\w+\s*,', r'self\s*\.\s*status\s*\.\s*set\(\s*IncrStatus::NotStabilising\s*\)'], impl='impl State'))
    add({'C09', 'C08', 'C13'}, lambda: F.in_order(
        'frame/stabilise_end-order/parked-var-writes-are-applied-before-handlers-run', 'src/state.rs', 'stabilise_end',
        [r'\.\s*set_var_stabilise_end\(\)', r'self\s*\.\s*status\s*\.\s*set\(\s*IncrStatus::RunningOnUpdateHandlers\s*\)'], impl='impl State'))

    add({'C13', 'C07', 'C10'}, lambda: F.body_is(
        'frame/Observer::value-reads-through-try_get_value', 'src/public.rs', 'value',
        r'self\.internal\.try_get_value\(\)\.unwrap\(\)', impl='impl<T: Value> Observer<T>'))
    add({'C13', 'C07', 'C10'}, lambda: F.body_is(
        'frame/Observer::try_get_value-forwards-to-the-shared-observer', 'src/public.rs', 'try_get_value',
        r'self\.internal\.try_get_value\(\)', impl='impl<T: Value> Observer<T>'))
    # -- observer lifecycle ----------------------------------------------------------------------------------
    add({'C10', 'C07', 'C05'}, lambda: F.only_in(
        'frame/observers-become-InUse-only-in-add_new_observers', r'\.set\(\s*(ObserverState::)?InUse\s*\)',
        {'add_new_observers'}, SRC, min_hits=1))
    add({'C10'}, lambda: F.only_in(
        'frame/observers-become-Unlinked-only-in-disallow_future_use-and-unlink_disallowed_observers',
        r'\.set\(\s*(ObserverState::)?Unlinked\s*\)', {'disallow_future_use', 'unlink_disallowed_observers'}, SRC, min_hits=1))
    add({'C10'}, lambda: F.only_in(
        'frame/all_observers-borrowed-mutably-only-to-link-unlink-or-destroy', r'\ball_observers\s*\.\s*(borrow_mut|replace|take|swap)\(',
        {'add_new_observers', 'unlink_disallowed_observers', 'destroy', 'drop'}, ST, min_hits=1))
    add({'C10', 'C05', 'C07'}, lambda: F.only_in(
        'frame/clone-sentinel-touched-only-by-new-and-drop', r'\bsentinel\b', {'new', 'drop', None}, ['src/public.rs'], min_hits=4, strict=True, vanished_is_violation=True))

    # what is done per observer is under contract (unit steps, rule R7h); the iteration itself is not: pinned here, and a
    # different way of iterating is undecided, not an alarm
    add({'C10', 'C07', 'C05', 'C09'}, lambda: F.in_order(
        'frame/add_new_observers-drains-the-queue-of-new-observers', 'src/state.rs', 'add_new_observers',
        [r'\.\s*drain\(\s*\.\.\s*\)'], impl='impl State', strict=False))
    add({'C09'}, lambda: F.in_order(
        'frame/a-changed-node-is-queued-for-its-handlers-whichever-path-changed-it', 'src/node.rs', 'maybe_change_value_manual',
        [r'self\s*\.\s*changed_at\s*\.\s*set\(', r'self\s*\.\s*maybe_handle_after_stabilisation\(\s*\w+\s*\)'],
        impl='impl Node'))
    add({'C07', 'C10', 'C05'}, lambda: F.in_order(
        'frame/observe-counts-and-queues-the-new-observer', 'src/state.rs', 'observe',
        [r'InternalObserver::new\(\s*\w+\s*\)', r'\.\s*push\('], impl='impl State'))
    add({'C07', 'C10', 'C05'}, lambda: F.occurs(
        'frame/observe-counts-the-new-observer-once', 'src/state.rs', 'observe', r'self\s*\.\s*num_active_observers\s*\.\s*increment\(\)', 1, impl='impl State'))
    add({'C07', 'C10'}, lambda: F.in_order(
        'frame/a-new-observer-starts-in-Created', 'src/internal_observer.rs', 'new',
        [r'state:\s*Cell::new\(Created\)'], impl='impl<T: Value> InternalObserver<T>'))
    add({'C05', 'C10'}, lambda: F.in_order(
        'frame/unlink_disallowed_observers-drains-the-queue-of-disallowed-observers', 'src/state.rs', 'unlink_disallowed_observers',
        [r'\.\s*drain\(\s*\.\.\s*\)'], impl='impl State', strict=False))
    PV = 'impl<T: Value> Var<T>'
    add({'C08'}, lambda: F.body_is('frame/public-Var::set-forwards', 'src/public.rs', 'set', r'self\.internal\.set\(\w+\)', impl=PV))
    add({'C08'}, lambda: F.body_is('frame/public-Var::update-forwards', 'src/public.rs', 'update', r'self\.internal\.update\(\w+\)', impl=PV))
    add({'C08'}, lambda: F.body_is('frame/public-Var::modify-forwards', 'src/public.rs', 'modify', r'self\.internal\.modify\(\w+\);?', impl=PV))
    add({'C08'}, lambda: F.body_is('frame/public-Var::get-forwards', 'src/public.rs', 'get', r'self\.internal\.get\(\)', impl=PV))
    add({'C08'}, lambda: F.body_is('frame/public-Var::replace_with-forwards', 'src/public.rs', 'replace_with', r'self\.internal\.replace_with\(\|(\w+)\|\w+\(\1\)\)', impl=PV))
    add({'C08'}, lambda: F.body_is('frame/public-Var::replace-is-replace_with-constant', 'src/public.rs', 'replace', r'self\.internal\.replace_with\(\|_\w*\|\w+\)', impl=PV))
    # -- subscriber notifications ----------------------------------------------------------------------------
    add({'C09'}, lambda: F.only_in(
        'frame/handlers-run-only-from-stabilise_end', r'\.run_on_update_handlers\(', {'stabilise_end'}, SRC, min_hits=1))
    add({'C09'}, lambda: F.only_in(
        'frame/handler.run-called-only-by-the-two-delivery-loops', r'\b(?!span\b|\w*_span\b)\w+\s*\.\s*run\(\s*\w+\s*,\s*\w+\s*,\s*\w+\s*\)', {'run_all', 'run_on_update_handlers'},
        ['src/node.rs', 'src/internal_observer.rs', 'src/state.rs', 'src/public.rs', 'src/incr.rs'], min_hits=1))
    add({'C09'}, lambda: F.in_order(
        'frame/try_subscribe-maps-Necessary-to-Initialised', 'src/public.rs', 'try_subscribe',
        [r'NodeUpdate::Necessary\((\w+)\)\s*=>\s*Update::Initialised\(\1\)', r'NodeUpdate::Changed\((\w+)\)\s*=>\s*Update::Changed\(\1\)',
         r'NodeUpdate::Invalidated\s*=>\s*Update::Invalidated', r'self\s*\.\s*internal\s*\.\s*subscribe\(\s*\w+\s*\)', r'\.\s*handle_after_stabilisation\('],
        impl='impl<T: Value> Observer<T>'))

    # -- node values and stamps ------------------------------------------------------------------------------
    add({'C07'}, lambda: F.only_in(
        'frame/node-values-written-only-while-recomputing-or-invalidating', r'\bvalue_opt\s*\.\s*(replace|take|borrow_mut|swap|set)\(',
        {'recompute_one', 'maybe_change_value', 'invalidate_node'}, SRC, min_hits=1))
    add({'C06', 'C09'}, lambda: F.only_in(
        'frame/changed_at-written-only-on-change-or-invalidation', r'\bchanged_at\s*\.\s*(set|replace)\(',
        {'recompute_one', 'invalidate_node', 'maybe_change_value_manual'}, SRC, min_hits=1))
    add({'C06'}, lambda: F.only_in(
        'frame/recomputed_at-written-only-when-recomputing-or-invalidating', r'\brecomputed_at\s*\.\s*(set|replace)\(',
        {'recompute_one', 'invalidate_node'}, SRC, min_hits=1))
    add({'C06'}, lambda: F.in_order(
        'frame/bind-lhs-change-never-cuts-off', 'src/incr.rs', 'bind',
        [r'set_cutoff\(&\*lhs_change,\s*Cutoff::Never\)'], impl=None))
    add({'C06'}, lambda: F.in_order(
        'frame/erased-cutoff-forwards-old-then-new', 'src/cutoff.rs', 'should_cutoff',
        [r'\(&mut \*self\.should_cutoff\)\(a,\s*b\)'], impl='impl ErasedCutoff'))
    add({'C06'}, lambda: F.in_order(
        'frame/erased-cutoff-downcasts-then-asks-the-typed-cutoff-with-old-then-new', 'src/cutoff.rs', 'new',
        [r'\|\s*(\w+)\s*(?::[^,|]+)?,\s*(\w+)\s*(?::[^|]+)?\|(?s:.*?)\.\s*should_cutoff\(\s*\1\s*,\s*\2\s*\)'],
        impl='impl ErasedCutoff'))
    add({'C19', 'C11'}, lambda: F.only_in(
        'frame/the-raw-height-setter-is-used-only-by-the-checked-one', r'\.\s*set_height\(\s*(?:[^,()]|\([^()]*\))+\)',
        {'adjust_heights_heap.rs::set_height'},
        ['src/node.rs', 'src/state.rs', 'src/adjust_heights_heap.rs', 'src/recompute_heap.rs', 'src/kind/bind.rs', 'src/scope.rs'], min_hits=1))
    add({'C19'}, lambda: F.only_in(
        'frame/node-height-assigned-only-in-Node::set_height', r'\bheight\s*\.\s*(set|replace)\(', {'set_height'}, NODE, min_hits=1))

    # -- OrdMap adapter (im_rc enumerates; the crate only re-tags): argument order of the dependency calls -----------
    add({'C18'}, lambda: F.in_order(
        'frame/ordmap-symmetric_diff-is-self.diff(other)-retagged', 'incremental-map/src/im_rc.rs', 'symmetric_diff',
        [r'self\s*\.\s*diff\(\s*\w+\s*\)\s*\.\s*map\(\s*DiffElement::from_diff_item\s*\)'],
        impl="impl<'a, K: Ord + 'a, V: PartialEq + 'a> SymmetricDiffMap<'a, K, V> for OrdMap<K, V>"))
    add({'C18'}, lambda: F.body_is(
        'frame/btreemap-symmetric_fold-is-exactly-self.symmetric_diff(other).fold(init,f)', 'incremental-map/src/symmetric_fold.rs', 'symmetric_fold',
        r'self\.symmetric_diff\(\w+\)\.fold\(\w+,\w+\)', impl='impl<K: Ord, V: PartialEq> SymmetricFoldMap<K, V> for BTreeMap<K, V>'))
    add({'C18'}, lambda: F.body_is(
        'frame/ordmap-symmetric_fold-is-exactly-self.symmetric_diff(other).fold(init,f)', 'incremental-map/src/im_rc.rs', 'symmetric_fold',
        r'self\.symmetric_diff\(\w+\)\.fold\(\w+,\w+\)',
        impl='impl<K: Ord, V: PartialEq> SymmetricFoldMap<K, V> for OrdMap<K, V>'))
    add({'C18'}, lambda: F.body_is(
        'frame/ordmap-symmetric_diff-is-exactly-self.diff(other)-retagged', 'incremental-map/src/im_rc.rs', 'symmetric_diff',
        r'self\.diff\(\w+\)\.map\(DiffElement::from_diff_item\)',
        impl="impl<'a, K: Ord + 'a, V: PartialEq + 'a> SymmetricDiffMap<'a, K, V> for OrdMap<K, V>"))

    # -- graph surgery helpers that neither verifier reaches: statement order pinned ---------------------------
    EN = 'impl ErasedNode for Node'
    add({'C19', 'C11'}, lambda: F.in_order(
        'frame/adjust_heights-checks-parent-and-bind-scope-edges-of-every-popped-node', 'src/adjust_heights_heap.rs', 'adjust_heights',
        [r'self\s*\.\s*remove_min\(\)', r'\.\s*is_in_recompute_heap\(\)', r'\.\s*increase_height\(', r'\.\s*ensure_parent_height_requirements\(\s*self\s*,'],
        impl='impl AdjustHeightsHeap'))
    add({'C14', 'C09', 'C06'}, lambda: F.occurs(
        'frame/every-parent-of-a-changed-node-is-told-unconditionally', 'src/node.rs', 'maybe_change_value_manual',
        r'if\s+run_child_changed\s*\{\s*(let\s+\w+\s*=\s*)?\w+\s*\.\s*child_changed\(\s*self\s*,', 2, impl='impl Node'))
    add({'C05'}, lambda: F.in_order(
        'frame/an-invalidated-necessary-node-releases-its-children', 'src/node.rs', 'invalidate_node',
        [r'self\s*\.\s*is_necessary\(\)', r'self\s*\.\s*remove_children\(\s*\w+\s*\)'], impl=EN))

    # -- thin public wrappers and constructors the properties silently depend on: one-line forwarders pinned -----------
    IS = 'impl IncrState'
    IN = 'impl<T: Value> Incr<T>'
    OB = 'impl<T: Value> Observer<T>'
    add({'C19', 'C13', 'C07'}, lambda: F.body_is('frame/IncrState::stabilise-forwards', 'src/public.rs', 'stabilise', r'self\.inner\.stabilise\(\);', impl=IS))
    add({'C19', 'C13'}, lambda: F.body_is('frame/State::stabilise-forwards', 'src/state.rs', 'stabilise', r'self\.stabilise_debug\(None\)', impl='impl State'))
    add({'C08'}, lambda: F.body_is('frame/IncrState::is_stable-forwards', 'src/public.rs', 'is_stable', r'self\.inner\.is_stable\(\)', impl=IS))
    add({'C19'}, lambda: F.body_is('frame/IncrState::set_max_height_allowed-forwards', 'src/public.rs', 'set_max_height_allowed',
                                   r'self\.inner\.set_max_height_allowed\(\w+\)', impl=IS))
    add({'C19'}, lambda: F.body_is('frame/IncrState::new_with_height-forwards', 'src/public.rs', 'new_with_height',
                                   r'let(\w+)=State::new_with_height\(\w+\);Self\{(inner:)?\1\}', impl=IS))
    add({'C19'}, lambda: F.in_order('frame/State::new_with_height-configures-both-heaps-with-N', 'src/state.rs', 'new_with_height',
                                    [r'recompute_heap:\s*RecomputeHeap::new\(max_height\)', r'adjust_heights_heap:\s*RefCell::new\(AdjustHeightsHeap::new\(max_height\)\)',
                                     r'status:\s*Cell::new\(IncrStatus::NotStabilising\)'], impl='impl State'))
    add({'C10', 'C09'}, lambda: F.body_is('frame/IncrState::unsubscribe-forwards', 'src/public.rs', 'unsubscribe', r'self\.inner\.unsubscribe\(\w+\)', impl=IS))
    add({'C10', 'C09'}, lambda: F.body_is('frame/Observer::unsubscribe-forwards', 'src/public.rs', 'unsubscribe', r'self\.internal\.unsubscribe\(\w+\)', impl=OB))
    add({'C10', 'C09'}, lambda: F.body_is('frame/Observer::subscribe-is-try_subscribe', 'src/public.rs', 'subscribe', r'self\.try_subscribe\(\w+\)\.unwrap\(\)', impl=OB))
    add({'C05', 'C07', 'C10'}, lambda: F.in_order('frame/Incr::observe-registers-with-the-state', 'src/incr.rs', 'observe',
                                          [r'\.\s*state\(\)\s*\.\s*observe\(\s*\w+\s*\)', r'Observer::new\(\s*\w+\s*\)'], impl=IN))
    add({'C06'}, lambda: F.body_is('frame/Incr::set_cutoff-forwards', 'src/incr.rs', 'set_cutoff', r'self\.node\.set_cutoff\(\w+\);', impl=IN))
    add({'C06'}, lambda: F.body_is('frame/Incr::set_cutoff_fn-forwards', 'src/incr.rs', 'set_cutoff_fn', r'self\.node\.set_cutoff\(Cutoff::Fn\(\w+\)\);', impl=IN))
    add({'C06'}, lambda: F.body_is('frame/Incr::set_cutoff_fn_boxed-forwards', 'src/incr.rs', 'set_cutoff_fn_boxed',
                                   r'self\.node\.set_cutoff\(Cutoff::FnBoxed\(Box::new\(\w+\)\)\);', impl=IN))
    add({'C06'}, lambda: F.body_is('frame/Node::set_cutoff-installs-the-erased-cutoff', 'src/node.rs', 'set_cutoff',
                                   r'self\.cutoff\.replace\(\w+\.erased\(\)\);', impl='impl<R: Value> Incremental<R> for Node'))
    add({'C06'}, lambda: F.body_is('frame/Cutoff::erased-wraps-itself', 'src/cutoff.rs', 'erased', r'ErasedCutoff::new\(self\)', impl='impl<T: ?Sized> Cutoff<T>'))
    add({'C06'}, lambda: F.in_order('frame/nodes-start-with-the-PartialEq-cutoff', 'src/node.rs', 'create',
                                    [r'let\s+(\w+)\s*=\s*Cutoff::<R>::PartialEq\s*\.\s*erased\(\)', r'Self::create_inner\(\s*\w+\s*,\s*\w+\s*,\s*\w+\s*,\s*\w+\s*\)'], impl='impl Node'))
    add({'C09'}, lambda: F.in_order('frame/Incr::on_update-registers-a-handler-created-now', 'src/incr.rs', 'on_update',
                                    [r'\.\s*stabilisation_num\s*\.\s*get\(\)', r'OnUpdateHandler::new\(\s*\w+\s*,', r'self\s*\.\s*node\s*\.\s*add_on_update_handler\(\s*\w+\s*\)'], impl=IN))
    add({'C09', 'C11'}, lambda: F.in_order('frame/Node::add_on_update_handler-counts-it', 'src/node.rs', 'add_on_update_handler',
                                    [r'self\s*\.\s*num_on_update_handlers\s*\.\s*increment\(\)'], impl='impl<R: Value> Incremental<R> for Node'))

    # -- expert API surface (src/kind/expert.rs `public`, src/state/expert.rs) --------------------------------------
    EP = 'impl<T: Value> Node<T>'
    add({'C14'}, lambda: F.in_order('frame/a-new-expert-node-starts-unforced-uncounted-and-will-fire-all-callbacks', 'src/kind/expert.rs', 'new_obs',
                                    [r'force_stale:\s*false\.into\(\)', r'num_invalid_children:\s*0\.into\(\)', r'will_fire_all_callbacks:\s*true\.into\(\)'], impl='impl ExpertNode'))
    add({'C14'}, lambda: F.in_order('frame/a-new-edge-keeps-its-callback-and-has-no-index', 'src/kind/expert.rs', 'new',
                                    [r'on_change:\s*RefCell::new\(on_change\)', r'index:\s*None\.into\(\)'], impl='impl<T> Edge<T>'))
    add({'C14'}, lambda: F.in_order('frame/add_dependency_with-registers-the-callback', 'src/kind/expert.rs', 'add_dependency_with',
                                    [r'Edge::new\(\s*\w+\.clone\(\)\s*,\s*Some\(\s*Box::new\(\s*\w+\s*\)\s*\)\s*\)', r'expert::add_dependency\(\s*&self\.incr\.node\.packed\(\)\s*,\s*\w+\s*\)'], impl=EP))
    add({'C14'}, lambda: F.in_order('frame/add_dependency-links-the-edge', 'src/kind/expert.rs', 'add_dependency',
                                    [r'Edge::new\(\s*\w+\.clone\(\)\s*,\s*None\s*\)', r'expert::add_dependency\(\s*&self\.incr\.node\.packed\(\)\s*,\s*\w+\s*\)'], impl=EP))
    add({'C14'}, lambda: F.in_order('frame/remove_dependency-unlinks-that-edge', 'src/kind/expert.rs', 'remove_dependency',
                                    [r'\.\s*edge\s*\.\s*upgrade\(\)', r'expert::remove_dependency\(\s*&\*self\.incr\.node\s*,\s*&\*\w+\s*\)'], impl=EP))
    add({'C14'}, lambda: F.body_is('frame/expert-public-make_stale-forwards', 'src/kind/expert.rs', 'make_stale',
                                   r'expert::make_stale\(&self\.incr\.node\.packed\(\)\)', impl=EP))
    add({'C14'}, lambda: F.body_is('frame/expert-public-invalidate-forwards', 'src/kind/expert.rs', 'invalidate',
                                   r'expert::invalidate\(&self\.incr\.node\.packed\(\)\)', impl=EP))
    add({'C14'}, lambda: F.body_is('frame/state-expert-add_dependency-forwards', 'src/state/expert.rs', 'add_dependency', r'\w+\.expert_add_dependency\(\w+\);?'))
    add({'C14'}, lambda: F.body_is('frame/state-expert-remove_dependency-forwards', 'src/state/expert.rs', 'remove_dependency', r'\w+\.expert_remove_dependency\(\w+\);?'))
    add({'C14'}, lambda: F.body_is('frame/state-expert-make_stale-forwards', 'src/state/expert.rs', 'make_stale', r'\w+\.expert_make_stale\(\);?'))
    add({'C14'}, lambda: F.in_order('frame/an-expert-node-recomputes-only-after-before_main_computation', 'src/node.rs', 'recompute_one',
                                    [r'Kind::Expert\(\s*(\w+)\s*\)\s*=>', r'\.\s*before_main_computation\(\)', r'Err\(\s*Invalid\s*\)\s*=>', r'self\s*\.\s*invalidate_node\(', r'\.\s*propagate_invalidity\(\)',
                                     r'Ok\(\s*\(\)\s*\)\s*=>', r'\.\s*recompute\s*\.\s*borrow_mut\(\)', r'self\s*\.\s*maybe_change_value\('], impl='impl ErasedNode for Node'))
    add({'C14', 'C06'}, lambda: F.in_order('frame/child_changed-runs-the-edge-callback-of-an-expert-parent', 'src/node.rs', 'child_changed',
                                    [r'Kind::Expert\(\s*(\w+)\s*\)\s*=>\s*\1\s*\.\s*run_edge_callback\(\s*\w+\s*\)'], impl='impl ErasedNode for Node'))

    # -- only needed nodes are scheduled -------------------------------------------------------------------
    add({'C05'}, lambda: F.each_guarded(
        'frame/every-recompute_heap.insert-is-dominated-by-a-necessity-test-or-assertion', r'recompute_heap\s*\.\s*insert\(',
        [r'is_necessary\(\)', r'needs_to_be_computed\(\)'], ['src/node.rs', 'src/state.rs', 'src/var.rs'], window=30, min_hits=1))
    add({'C06'}, _bind_main_cutoff_type)
    return fs
