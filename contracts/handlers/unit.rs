// Unit handlers (C09): the per-handler transition table (src/node_update.rs) and the end-of-stabilise
// classification of a node (Node::node_update, src/node.rs).
use vstd::prelude::*;
use std::rc::Rc;
use std::cell::Cell;

verus! {

//@include vx_prelude.rs

//@extract struct StabilisationNum
//@ file: src/stabilisation_num.rs
//@ name: StabilisationNum
//@ derives: Copy, Clone, PartialEq, Eq, PartialOrd, Ord
//@ rule R4: `#[derive(Copy, Clone, PartialEq, Eq, PartialOrd, Ord)]` => `#[derive(Copy, Clone, PartialEq, Eq)]` x1
//@ contract:
//@| #[derive(Structural)]
//@end

impl StabilisationNum {
//@extract fn StabilisationNum::add1
//@ file: src/stabilisation_num.rs
//@ impl: impl StabilisationNum
//@ name: add1
//@ as: pub fn add1(self) -> (r: Self)
//@ props: C09
//@ contract:
//@|     requires self.0 < i32::MAX,
//@|     ensures r.0 == self.0 + 1, // [next-stabilisation]
//@end
}

//@extract enum Previously
//@ file: src/node_update.rs
//@ name: Previously
//@ derives: Copy, Clone, PartialEq, Eq
//@ contract:
//@| #[derive(Structural)]
//@end

//@extract enum NodeUpdateDelayed
//@ file: src/node_update.rs
//@ name: NodeUpdateDelayed
//@ derives: Copy, Clone
//@end

//@extract enum NodeUpdate
//@ file: src/node_update.rs
//@ name: NodeUpdate
//@end

// ---- trusted: engine node / state, opaque; foreign cells are read-only in this unit (R5r) ----
#[verifier::external_type_specification]
#[verifier::external_body]
#[verifier::reject_recursive_types(T)]
pub struct ExCell<T: ?Sized>(Cell<T>);
pub uninterp spec fn cell_val<T>(c: &Cell<T>) -> T;
pub assume_specification<T: Copy>[ Cell::<T>::get ](c: &Cell<T>) -> (r: T)
    ensures r == cell_val(c);

pub struct State {
    pub stabilisation_num: Cell<StabilisationNum>,
}

#[verifier::external_body]
pub struct ValueAny { _p: u8 }
#[verifier::external_body]
pub struct AnyRef { _p: u8 }

pub uninterp spec fn node_valid(n: &Node) -> bool;
pub uninterp spec fn node_necessary(n: &Node) -> bool;
pub uninterp spec fn node_value(n: &Node) -> Option<u64>;
pub uninterp spec fn node_state(n: &Node) -> Option<Rc<State>>;
pub uninterp spec fn any_u64(a: &AnyRef) -> Option<u64>;
pub uninterp spec fn va_any(a: &ValueAny) -> &AnyRef;

pub struct Node {
    pub changed_at: Cell<StabilisationNum>,
    // the node's other stamp: unconstrained here; present so that a classification that reads it is checked against
    // the contract instead of failing to type-check
    pub recomputed_at: Cell<StabilisationNum>,
}

impl ValueAny {
    #[verifier::external_body]
    pub fn as_any(&self) -> (r: &AnyRef) ensures r == va_any(self) { unimplemented!() }
}
impl AnyRef {
    // std::any::Any::downcast_ref::<u64>
    #[verifier::external_body]
    pub fn downcast_ref<T>(&self) -> (r: Option<&u64>)
        ensures r == (match any_u64(self) { Some(v) => Some(&v), None => None })
    { unimplemented!() }
}

impl Node {
    #[verifier::external_body]
    pub fn is_valid(&self) -> (r: bool) ensures r == node_valid(self) { unimplemented!() }
    #[verifier::external_body]
    pub fn is_necessary(&self) -> (r: bool) ensures r == node_necessary(self) { unimplemented!() }
    #[verifier::external_body]
    pub fn state_opt(&self) -> (r: Option<Rc<State>>) ensures r == node_state(self) { unimplemented!() }
    // Option<Ref<dyn ValueInternal>>: present iff the node has a value; a u64 node's value downcasts to it
    #[verifier::external_body]
    pub fn value_as_any(&self) -> (r: Option<ValueAny>)
        ensures r is Some == node_value(self) is Some,
                r is Some ==> any_u64(va_any(&r.unwrap())) == node_value(self),
    { unimplemented!() }

    /// "the node's result changed in the stabilisation that is being closed": stabilise_end has already
    /// incremented stabilisation_num (frame obligation C09/frame/stabilise_end-order).
    pub open spec fn changed_in_closing_stabilisation(&self) -> bool {
        node_state(self) is Some && cell_val(&self.changed_at).0 + 1 == cell_val(&node_state(self).unwrap().stabilisation_num).0
    }

//@extract fn Node::node_update
//@ file: src/node.rs
//@ impl: impl ErasedNode for Node
//@ name: node_update
//@ as: pub fn node_update(&self) -> (r: NodeUpdateDelayed)
//@ props: C09
//@ contract:
//@|     requires cell_val(&self.changed_at).0 < i32::MAX,
//@|     ensures
//@|         !node_valid(self) <==> r is Invalidated, // [invalid-node-is-Invalidated]
//@|         (node_valid(self) && !node_necessary(self)) <==> r is Unnecessary, // [unneeded-node-is-Unnecessary]
//@|         r is Changed <==> (node_valid(self) && node_necessary(self) && node_value(self) is Some && self.changed_in_closing_stabilisation()), // [Changed-iff-the-value-changed-in-this-stabilise]
//@|         r is Changed ==> node_value(self) is Some, // [Changed-carries-a-value]
//@end
}


// ---- the per-handler automaton --------------------------------------------------------------------------
// R8: the boxed user callback (SmallBox<dyn FnMut(NodeUpdate<&T>)>) becomes a closure type parameter F;
// R4: T := u64; R5: previous_update_kind: Cell<Previously> -> Previously.
//@extract struct OnUpdateHandler
//@ file: src/node_update.rs
//@ name: OnUpdateHandler
//@ cells: previous_update_kind
//@ rule R8: `OnUpdateHandler<T>` => `OnUpdateHandler<F>` x1
//@ rule R8: `handler_fn: BoxedUpdateFn<T>` => `handler_fn: F` x1
//@end

/// What a handler that last saw `prev` must be told when its node is classified `u` at the end of a
/// stabilise (None: nothing).  Taken from the property: Initialised (= Necessary) first, Changed only for a
/// change, one Invalidated, then nothing.
pub open spec fn expected_delivery(prev: Previously, u: NodeUpdateDelayed) -> Option<NodeUpdateDelayed> {
    match (prev, u) {
        (Previously::Invalidated, _) => None,
        (Previously::Changed, NodeUpdateDelayed::Necessary) => None,
        (Previously::Necessary, NodeUpdateDelayed::Necessary) => None,
        (Previously::Unnecessary, NodeUpdateDelayed::Unnecessary) => None,
        (Previously::NeverBeenUpdated, NodeUpdateDelayed::Changed) => Some(NodeUpdateDelayed::Necessary),
        (Previously::Unnecessary, NodeUpdateDelayed::Changed) => Some(NodeUpdateDelayed::Necessary),
        (_, u) => Some(u),
    }
}

pub open spec fn prev_of(u: NodeUpdateDelayed) -> Previously {
    match u {
        NodeUpdateDelayed::Changed => Previously::Changed,
        NodeUpdateDelayed::Necessary => Previously::Necessary,
        NodeUpdateDelayed::Invalidated => Previously::Invalidated,
        NodeUpdateDelayed::Unnecessary => Previously::Unnecessary,
    }
}

/// The concrete update handed to the user callback for a delivered kind: it carries the node's current value.
pub open spec fn concrete<'a>(u: NodeUpdateDelayed, v: Option<u64>) -> NodeUpdate<&'a u64> {
    match u {
        NodeUpdateDelayed::Changed => NodeUpdate::Changed(&v.unwrap()),
        NodeUpdateDelayed::Necessary => NodeUpdate::Necessary(&v.unwrap()),
        NodeUpdateDelayed::Invalidated => NodeUpdate::Invalidated,
        NodeUpdateDelayed::Unnecessary => NodeUpdate::Unnecessary,
    }
}

impl<F: FnMut(NodeUpdate<&u64>)> OnUpdateHandler<F> {
//@extract fn OnUpdateHandler::new
//@ file: src/node_update.rs
//@ impl: impl<T: 'static> OnUpdateHandler<T>
//@ name: new
//@ as: fn new(created_at: StabilisationNum, handler_fn: F) -> (r: Self)
//@ rule R5: `Previously::NeverBeenUpdated.into()` => `Previously::NeverBeenUpdated` x1
//@ props: C09
//@ contract:
//@|     ensures
//@|         r.previous_update_kind is NeverBeenUpdated, // [a-new-subscription-has-seen-nothing-so-its-first-message-is-Initialised]
//@|         r.created_at == created_at && r.handler_fn == handler_fn, // [stamped-with-its-creation-time]
//@end

//@extract fn OnUpdateHandler::really_run_downcast
//@ file: src/node_update.rs
//@ impl: impl<T: 'static> OnUpdateHandler<T>
//@ name: really_run_downcast
//@ as: fn really_run_downcast(&mut self, node: &Node, node_update: NodeUpdateDelayed)
//@ cells: previous_update_kind
//@ rule R4: `downcast_ref::<T>()` => `downcast_ref::<u64>()` x2
//@ props: C09
//@ contract:
//@|     requires
//@|         (node_update is Changed || node_update is Necessary) ==> node_value(node) is Some,
//@|         // the user callback may be called with exactly the update that is due, and nothing else:
//@|         forall|x: NodeUpdate<&u64>| call_requires(old(self).handler_fn, (x,)) <==> x == concrete(node_update, node_value(node)),
//@|     ensures
//@|         final(self).previous_update_kind == prev_of(node_update), // [handler-remembers-what-it-delivered]
//@|         final(self).created_at == old(self).created_at, // [frame]
//@end

//@extract fn OnUpdateHandler::run
//@ file: src/node_update.rs
//@ impl: impl<T: 'static> HandleUpdate for OnUpdateHandler<T>
//@ name: run
//@ as: fn run(&mut self, node: &Node, node_update: NodeUpdateDelayed, now: StabilisationNum)
//@ cells: previous_update_kind
//@ stamps: created_at, now
//@ props: C09
//@ contract:
//@|     requires
//@|         (node_update is Changed || node_update is Necessary) ==> node_value(node) is Some,
//@|         // the callback is callable only with what the table says is due now (and not at all if nothing is due,
//@|         // or if the subscription was created in this very stabilisation):
//@|         forall|x: NodeUpdate<&u64>| call_requires(old(self).handler_fn, (x,)) <==> (
//@|             old(self).created_at.0 < now.0
//@|             && expected_delivery(old(self).previous_update_kind, node_update) is Some
//@|             && x == concrete(expected_delivery(old(self).previous_update_kind, node_update).unwrap(), node_value(node))),
//@|     ensures
//@|         final(self).created_at == old(self).created_at, // [frame]
//@|         final(self).previous_update_kind == (if old(self).created_at.0 < now.0 && expected_delivery(old(self).previous_update_kind, node_update) is Some { prev_of(expected_delivery(old(self).previous_update_kind, node_update).unwrap()) } else { old(self).previous_update_kind }), // [handler-state-follows-the-table]
//@end
}

} // verus!
fn main() {}
