#![feature(allocator_api)]
// Unit steps: what the engine's top-level procedures do *per step* - the body of stabilise_start, and the bodies of the
// loops of add_new_observers / unlink_disallowed_observers / stabilise_end / run_all / run_on_update_handlers taken as
// functions of one item (rule R7h), plus Node::expert_remove_child.  Everything these bodies call is opaque here (the
// callees are under contract in their own units); what is decided is which calls are made, under which condition, on
// which receiver and in which order:
//   must_call  X when C : every path that satisfies C reaches a call of X (or panics first)
//   never_call X when C : no path that satisfies C reaches a call of X
//   order A before B    : every call of B is preceded by a call of A
//   call-site obligations (permission predicates) for receivers / arguments
// These replace the syntactic statement-order frames of the first rounds.
use vstd::prelude::*;
use std::rc::Rc;
use std::cell::Cell;
use std::collections::HashMap;

verus! {

//@include vx_prelude.rs

pub assume_specification<T>[ core::mem::drop ](x: T);

// ---- foreign cells (R8): get returns the pre-state value of an uninterpreted function; set has no postcondition ----
#[verifier::external_type_specification]
#[verifier::external_body]
#[verifier::reject_recursive_types(T)]
pub struct ExCell<T: ?Sized>(Cell<T>);
pub uninterp spec fn cell_val<T>(c: &Cell<T>) -> T;
pub assume_specification<T: Copy>[ Cell::<T>::get ](c: &Cell<T>) -> (r: T)
    ensures r == cell_val(c);
pub assume_specification<T>[ Cell::<T>::set ](c: &Cell<T>, v: T);

//@extract enum IncrStatus
//@ file: src/state.rs
//@ name: IncrStatus
//@ derives: Clone, Copy, Eq, PartialEq
//@ contract:
//@| #[derive(Structural)]
//@end

//@extract enum ObserverState
//@ file: src/internal_observer.rs
//@ name: ObserverState
//@ derives: Copy, Clone, PartialEq
//@ contract:
//@| #[derive(Structural)]
//@end

//@extract struct ObserverId
//@ file: src/internal_observer.rs
//@ name: ObserverId
//@ derives: Clone, Copy, Eq, PartialEq, Hash
//@ contract:
//@| #[derive(Structural)]
//@end

pub mod trusted_keys {
    use vstd::prelude::*;
    use super::ObserverId;
    /// trusted: ObserverId's derived Hash/Eq agree with structural equality
    pub broadcast axiom fn axiom_observer_id_key_model()
        ensures #[trigger] vstd::std_specs::hash::obeys_key_model::<ObserverId>();
}
broadcast use {vstd::std_specs::hash::group_hash_axioms, trusted_keys::axiom_observer_id_key_model};

// ---- opaque engine objects --------------------------------------------------------------------------------
#[verifier::external_body]
pub struct Node { _p: u8 }
pub type NodeRef = Rc<Node>;
pub uninterp spec fn node_necessary(n: &Node) -> bool;
/// permission predicates (call-site obligations): the node a step is allowed to hand to the callee
pub uninterp spec fn may_recheck(n: &Node) -> bool;
pub uninterp spec fn may_queue_for_handlers(n: &Node) -> bool;
pub uninterp spec fn may_propagate_necessity(n: &Node) -> bool;

/// the shared observer behind `Rc<dyn ErasedObserver>`
#[verifier::external_body]
pub struct Obs { _p: u8 }
pub uninterp spec fn obs_state(o: &Obs) -> ObserverState;
pub uninterp spec fn obs_id(o: &Obs) -> ObserverId;
pub uninterp spec fn obs_node(o: &Obs) -> &Node;
impl Obs {
    #[verifier::external_body]
    pub fn state(&self) -> (r: &Cell<ObserverState>) ensures cell_val(r) == obs_state(self) { unimplemented!() }
    #[verifier::external_body]
    pub fn id(&self) -> (r: ObserverId) ensures r == obs_id(self) { unimplemented!() }
    #[verifier::external_body]
    pub fn observing_erased(&self) -> (r: &Node) ensures r == obs_node(self) { unimplemented!() }
    #[verifier::external_body]
    pub fn observing_packed(&self) -> (r: NodeRef) ensures &*r == obs_node(self) { unimplemented!() }
    #[verifier::external_body]
    pub fn add_to_observed_node(&self) { unimplemented!() }
    #[verifier::external_body]
    pub fn remove_from_observed_node(&self) { unimplemented!() }
}
#[verifier::external_body]
pub struct WeakObs { _p: u8 }      // Weak<dyn ErasedObserver>
pub uninterp spec fn weak_target(w: &WeakObs) -> Option<Rc<Obs>>;
impl WeakObs {
    #[verifier::external_body]
    pub fn upgrade(&self) -> (r: Option<Rc<Obs>>) ensures r == weak_target(self) { unimplemented!() }
}

impl Node {
    #[verifier::external_body]
    pub fn is_necessary(&self) -> (r: bool) ensures r == node_necessary(self) { unimplemented!() }
    #[verifier::external_body]
    pub fn handle_after_stabilisation(&self, state: &State) requires may_queue_for_handlers(self) { unimplemented!() }
    #[verifier::external_body]
    pub fn became_necessary_propagate(&self, state: &State) requires may_propagate_necessity(self) { unimplemented!() }
    #[verifier::external_body]
    pub fn check_if_unnecessary(&self, state: &State) requires may_recheck(self) { unimplemented!() }
}

// ---- State: R5 on status and all_observers; every other field is dropped (the bodies below do not touch them,
//      or touch them only through the opaque calls) ----
pub struct State {
    pub status: IncrStatus,
    pub all_observers: HashMap<ObserverId, Rc<Obs>>,
}

impl State {
    // opaque callees of stabilise_start: linking / unlinking run user callbacks (expert observability changes), so
    // they may only run once the engine says it is stabilising (property C07 / C13)
    #[verifier::external_body]
    fn add_new_observers(&mut self)
        requires old(self).status is Stabilising,
        ensures final(self).status == old(self).status,
    { unimplemented!() }
    #[verifier::external_body]
    fn unlink_disallowed_observers(&mut self)
        requires old(self).status is Stabilising,
        ensures final(self).status == old(self).status,
    { unimplemented!() }

//@extract fn State::stabilise_start
//@ file: src/state.rs
//@ impl: impl State
//@ name: stabilise_start
//@ as: fn stabilise_start(&mut self)
//@ cells: status
//@ props: C05 C07 C10 C13
//@ must_call links-the-observers-created-since-the-last-stabilise: `self\s*\.\s*add_new_observers\(`
//@ must_call unlinks-the-observers-disallowed-since-the-last-stabilise: `self\s*\.\s*unlink_disallowed_observers\(`
//@ contract:
//@|     ensures final(self).status is Stabilising, // [the-engine-is-Stabilising-before-observers-are-linked-or-unlinked-and-stays-so]
//@end

//@extract loopbody State::add_new_observers/each
//@ file: src/state.rs
//@ impl: impl State
//@ name: add_new_observers
//@ loop_containing: `add_to_observed_node`
//@ as: fn add_new_observers__each(&mut self, vx_item: WeakObs)
//@ cells: all_observers
//@ cfg: release
//@ props: C05 C07 C09 C10
//@ never_call an-observer-disallowed-before-its-first-stabilise-is-not-marked-InUse: `\.\s*set\((?=\s*ObserverState::InUse\s*\))` when `weak_target(&vx_item) is Some && !(obs_state(&*weak_target(&vx_item).unwrap()) is Created)`
//@ never_call an-observer-disallowed-before-its-first-stabilise-is-not-linked: `\.\s*add_to_observed_node\(` when `weak_target(&vx_item) is Some && !(obs_state(&*weak_target(&vx_item).unwrap()) is Created)`
//@ never_call an-observer-disallowed-before-its-first-stabilise-makes-nothing-necessary: `\.\s*became_necessary_propagate\(` when `weak_target(&vx_item) is Some && !(obs_state(&*weak_target(&vx_item).unwrap()) is Created)`
//@ must_call a-created-observer-becomes-InUse: `\.\s*set\((?=\s*ObserverState::InUse\s*\))` when `weak_target(&vx_item) is Some && obs_state(&*weak_target(&vx_item).unwrap()) is Created`
//@ must_call a-created-observer-is-linked-to-its-node: `\.\s*add_to_observed_node\(` when `weak_target(&vx_item) is Some && obs_state(&*weak_target(&vx_item).unwrap()) is Created`
//@ must_call the-node-is-queued-for-its-handlers-whether-or-not-it-was-necessary: `\.\s*handle_after_stabilisation\(` when `weak_target(&vx_item) is Some && obs_state(&*weak_target(&vx_item).unwrap()) is Created`
//@ must_call a-node-that-was-not-necessary-becomes-necessary: `\.\s*became_necessary_propagate\(` when `weak_target(&vx_item) is Some && obs_state(&*weak_target(&vx_item).unwrap()) is Created && !node_necessary(obs_node(&*weak_target(&vx_item).unwrap()))`
//@ never_call a-node-that-was-already-necessary-is-not-propagated-again: `\.\s*became_necessary_propagate\(` when `weak_target(&vx_item) is Some && node_necessary(obs_node(&*weak_target(&vx_item).unwrap()))`
//@ order necessity-is-sampled-before-the-observer-is-linked: `\.\s*is_necessary\(` before `\.\s*add_to_observed_node\(`
//@ contract:
//@|     requires
//@|         weak_target(&vx_item) is Some ==> forall|n: &Node| #![trigger may_queue_for_handlers(n)] #![trigger may_propagate_necessity(n)]
//@|             (may_queue_for_handlers(n) <==> n == obs_node(&*weak_target(&vx_item).unwrap())) && (may_propagate_necessity(n) <==> n == obs_node(&*weak_target(&vx_item).unwrap())),
//@|         weak_target(&vx_item) is Some ==> !(obs_state(&*weak_target(&vx_item).unwrap()) is InUse) && !(obs_state(&*weak_target(&vx_item).unwrap()) is Disallowed),
//@|     ensures
//@|         (weak_target(&vx_item) is Some && obs_state(&*weak_target(&vx_item).unwrap()) is Created) ==> final(self).all_observers@ == old(self).all_observers@.insert(obs_id(&*weak_target(&vx_item).unwrap()), weak_target(&vx_item).unwrap()), // [a-linked-observer-is-registered-under-its-own-id]
//@|         !(weak_target(&vx_item) is Some && obs_state(&*weak_target(&vx_item).unwrap()) is Created) ==> final(self).all_observers@ == old(self).all_observers@, // [a-dead-or-disallowed-observer-is-not-registered]
//@|         final(self).status == old(self).status, // [frame]
//@end

//@extract loopbody State::unlink_disallowed_observers/each
//@ file: src/state.rs
//@ impl: impl State
//@ name: unlink_disallowed_observers
//@ loop_containing: `remove_from_observed_node`
//@ as: fn unlink_disallowed_observers__each(&mut self, vx_item: WeakObs)
//@ cells: all_observers
//@ props: C05 C10 C11
//@ must_call the-observer-is-marked-Unlinked: `\.\s*set\((?=\s*ObserverState::Unlinked\s*\))` when `weak_target(&vx_item) is Some`
//@ must_call the-observer-is-deregistered-from-its-node: `\.\s*remove_from_observed_node\(` when `weak_target(&vx_item) is Some`
//@ must_call the-observed-node-is-rechecked-for-necessity: `\.\s*check_if_unnecessary\(` when `weak_target(&vx_item) is Some`
//@ order the-node-is-rechecked-only-after-the-observer-left-it: `\.\s*remove_from_observed_node\(` before `\.\s*check_if_unnecessary\(`
//@ contract:
//@|     requires
//@|         weak_target(&vx_item) is Some ==> obs_state(&*weak_target(&vx_item).unwrap()) is Disallowed,
//@|         weak_target(&vx_item) is Some ==> forall|n: &Node| #![trigger may_recheck(n)] may_recheck(n) <==> n == obs_node(&*weak_target(&vx_item).unwrap()),
//@|     ensures
//@|         weak_target(&vx_item) is Some ==> final(self).all_observers@ == old(self).all_observers@.remove(obs_id(&*weak_target(&vx_item).unwrap())), // [exactly-that-observer-is-forgotten]
//@|         weak_target(&vx_item) is None ==> final(self).all_observers@ == old(self).all_observers@, // [a-dead-handle-changes-nothing]
//@|         final(self).status == old(self).status, // [frame]
//@end
}

// =====================================================================================================================
// stabilise_end: what is done for one parked var, one dead var, one node queued for its handlers, one queued delivery
// =====================================================================================================================
//@extract struct StabilisationNum
//@ file: src/stabilisation_num.rs
//@ name: StabilisationNum
//@ derives: Copy, Clone, PartialEq, Eq
//@ contract:
//@| #[derive(Structural)]
//@end

//@extract enum NodeUpdateDelayed
//@ file: src/node_update.rs
//@ name: NodeUpdateDelayed
//@ derives: Copy, Clone
//@end

#[verifier::external_body]
pub struct VarS { _p: u8 }           // dyn ErasedVariable
#[verifier::external_body]
pub struct WeakVar { _p: u8 }
pub uninterp spec fn weak_var_target(w: &WeakVar) -> Option<Rc<VarS>>;
impl WeakVar {
    #[verifier::external_body]
    pub fn upgrade(&self) -> (r: Option<Rc<VarS>>) ensures r == weak_var_target(self) { unimplemented!() }
}
impl VarS {
    #[verifier::external_body]
    pub fn id(&self) -> u64 { unimplemented!() }
    #[verifier::external_body]
    pub fn set_var_stabilise_end(&self) { unimplemented!() }
    #[verifier::external_body]
    pub fn break_rc_cycle(&self) { unimplemented!() }
}
#[verifier::external_body]
pub struct WeakNode { _p: u8 }
pub uninterp spec fn weak_node_target(w: &WeakNode) -> Option<NodeRef>;
pub uninterp spec fn node_weak(n: &Node) -> WeakNode;
pub uninterp spec fn node_update_of(n: &Node) -> NodeUpdateDelayed;
pub uninterp spec fn node_handler_count(n: &Node) -> i32;
pub uninterp spec fn may_deliver(n: &Node, u: NodeUpdateDelayed, now: StabilisationNum) -> bool;
impl WeakNode {
    #[verifier::external_body]
    pub fn upgrade(&self) -> (r: Option<NodeRef>) ensures r == weak_node_target(self) { unimplemented!() }
}
impl Node {
    #[verifier::external_body]
    pub fn is_in_handle_after_stabilisation(&self) -> &Cell<bool> { unimplemented!() }
    #[verifier::external_body]
    pub fn node_update(&self) -> (r: NodeUpdateDelayed) ensures r == node_update_of(self) { unimplemented!() }
    #[verifier::external_body]
    pub fn weak(&self) -> (r: WeakNode) ensures r == node_weak(self) { unimplemented!() }
    #[verifier::external_body]
    pub fn num_on_update_handlers(&self) -> (r: &Cell<i32>) ensures cell_val(r) == node_handler_count(self) { unimplemented!() }
    #[verifier::external_body]
    pub fn run_on_update_handlers(&self, node_update: NodeUpdateDelayed, now: StabilisationNum) requires may_deliver(self, node_update, now) { unimplemented!() }
}

pub struct StateEnd {
    pub run_on_update_handlers: Vec<(WeakNode, NodeUpdateDelayed)>,
}
impl StateEnd {
//@extract loopbody State::stabilise_end/each-parked-var
//@ file: src/state.rs
//@ impl: impl State
//@ name: stabilise_end
//@ loop_containing: `set_var_stabilise_end`
//@ as: fn stabilise_end__each_parked_var(&self, vx_item: WeakVar)
//@ props: C08 C13
//@ must_call a-var-written-during-the-stabilise-gets-its-parked-value-applied: `\.\s*set_var_stabilise_end\(` when `weak_var_target(&vx_item) is Some`
//@ contract:
//@end

//@extract loopbody State::stabilise_end/each-dead-var
//@ file: src/state.rs
//@ impl: impl State
//@ name: stabilise_end
//@ loop_containing: `break_rc_cycle`
//@ as: fn stabilise_end__each_dead_var(&self, vx_item: WeakVar)
//@ props: C08 C13
//@ must_call a-dropped-var-is-unhooked-from-its-watch-node: `\.\s*break_rc_cycle\(` when `weak_var_target(&vx_item) is Some`
//@ contract:
//@end

//@extract loopbody State::stabilise_end/each-node-queued-for-handlers
//@ file: src/state.rs
//@ impl: impl State
//@ name: stabilise_end
//@ loop_containing: `\.\s*node_update\(`
//@ as: fn stabilise_end__each_node_queued_for_handlers(&mut self, vx_item: NodeRef)
//@ cells: run_on_update_handlers
//@ props: C09
//@ must_call a-node-taken-off-the-queue-is-unflagged-so-that-it-can-be-queued-again: `\.\s*is_in_handle_after_stabilisation\(\)\s*\.\s*set\((?=\s*false\s*\))`
//@ contract:
//@|     ensures
//@|         node_handler_count(&*vx_item) > 0 ==> final(self).run_on_update_handlers@ == old(self).run_on_update_handlers@.push((node_weak(&*vx_item), node_update_of(&*vx_item))), // [a-node-with-handlers-is-queued-for-delivery-with-its-classified-update]
//@|         final(self).run_on_update_handlers@ == old(self).run_on_update_handlers@ || final(self).run_on_update_handlers@ == old(self).run_on_update_handlers@.push((node_weak(&*vx_item), node_update_of(&*vx_item))), // [nothing-else-is-queued]
//@end

//@extract loopbody State::stabilise_end/each-delivery
//@ file: src/state.rs
//@ impl: impl State
//@ name: stabilise_end
//@ loop_containing: `\.\s*run_on_update_handlers\(\s*\w+\s*,`
//@ as: fn stabilise_end__each_delivery(&self, vx_item: (NodeRef, NodeUpdateDelayed), now: StabilisationNum)
//@ props: C09
//@ must_call every-queued-update-is-delivered: `\.\s*run_on_update_handlers\(`
//@ contract:
//@|     requires forall|n: &Node, u: NodeUpdateDelayed, t: StabilisationNum| #![trigger may_deliver(n, u, t)] may_deliver(n, u, t) <==> (n == &*vx_item.0 && u == vx_item.1 && t == now),
//@|     // [the-update-classified-for-that-node-is-delivered-to-that-node-with-the-current-stabilisation-number]
//@end
}

// =====================================================================================================================
// the two delivery loops (src/internal_observer.rs run_all, src/node.rs run_on_update_handlers)
// =====================================================================================================================
#[verifier::external_body]
pub struct OnUpdateHandler { _p: u8 }
#[verifier::external_body]
pub struct SubscriptionToken { _p: u8 }
pub uninterp spec fn may_run_handler(n: &Node, u: NodeUpdateDelayed, now: StabilisationNum) -> bool;
impl OnUpdateHandler {
    #[verifier::external_body]
    pub fn run(&mut self, node: &Node, node_update: NodeUpdateDelayed, now: StabilisationNum) requires may_run_handler(node, node_update, now) { unimplemented!() }
}
use ObserverState::*;   // as src/internal_observer.rs does
pub struct InternalObserverS { pub state: ObserverState }
impl InternalObserverS {
//@extract loopbody InternalObserver::run_all/each
//@ file: src/internal_observer.rs
//@ impl: impl<T: Value> ErasedObserver for InternalObserver<T>
//@ name: run_all
//@ loop_containing: `\.\s*run\(`
//@ as: fn run_all__each(&self, vx_item: (&SubscriptionToken, &mut OnUpdateHandler), input: &Node, node_update: NodeUpdateDelayed, now: StabilisationNum)
//@ cells: state
//@ props: C09 C10
//@ must_call a-handler-of-an-observer-in-use-is-run: `\.\s*run\(` when `self.state is InUse`
//@ never_call a-handler-of-a-disallowed-observer-is-not-run: `\.\s*run\(` when `self.state is Disallowed`
//@ contract:
//@|     requires
//@|         self.state is InUse || self.state is Disallowed,
//@|         forall|n: &Node, u: NodeUpdateDelayed, t: StabilisationNum| #![trigger may_run_handler(n, u, t)] may_run_handler(n, u, t) <==> (n == input && u == node_update && t == now),
//@|     // [the-handler-gets-the-observed-node-the-update-and-the-stabilisation-number-it-was-handed]
//@end
}

impl Obs {
    #[verifier::external_body]
    pub fn run_all(&self, input: &Node, node_update: NodeUpdateDelayed, now: StabilisationNum) requires may_run_handler(input, node_update, now) { unimplemented!() }
}
impl Node {
    #[verifier::external_body]
    pub fn erased(&self) -> (r: &Node) ensures r == self { unimplemented!() }

//@extract loopbody Node::run_on_update_handlers/each-node-handler
//@ file: src/node.rs
//@ impl: impl ErasedNode for Node
//@ name: run_on_update_handlers
//@ loop_containing: `\.\s*run\(\s*self\s*,`
//@ as: fn run_on_update_handlers__each_node_handler(&self, vx_item: &mut OnUpdateHandler, node_update: NodeUpdateDelayed, now: StabilisationNum)
//@ props: C09
//@ must_call every-handler-registered-on-the-node-is-run: `\.\s*run\(`
//@ contract:
//@|     requires forall|n: &Node, u: NodeUpdateDelayed, t: StabilisationNum| #![trigger may_run_handler(n, u, t)] may_run_handler(n, u, t) <==> (n == self && u == node_update && t == now),
//@end

//@extract loopbody Node::run_on_update_handlers/each-observer
//@ file: src/node.rs
//@ impl: impl ErasedNode for Node
//@ name: run_on_update_handlers
//@ loop_containing: `\.\s*run_all\(`
//@ as: fn run_on_update_handlers__each_observer(&self, vx_item: (&ObserverId, &WeakObs), input: &Node, node_update: NodeUpdateDelayed, now: StabilisationNum)
//@ props: C09
//@ must_call every-live-observer-of-the-node-runs-its-handlers: `\.\s*run_all\(` when `weak_target(vx_item.1) is Some`
//@ contract:
//@|     requires forall|n: &Node, u: NodeUpdateDelayed, t: StabilisationNum| #![trigger may_run_handler(n, u, t)] may_run_handler(n, u, t) <==> (n == input && u == node_update && t == now),
//@end
}

// =====================================================================================================================
// graph surgery steps: expert_remove_child, change_child_bind_rhs, expert invalidate, propagate_invalidity (per node)
// =====================================================================================================================
#[verifier::external_body]
pub struct DynEdge { _p: u8 }        // dyn ExpertEdge
pub uninterp spec fn edge_input(e: &DynEdge) -> &Node;
impl DynEdge {
    #[verifier::external_body]
    pub fn erased_input(&self) -> (r: &Node) ensures r == edge_input(self) { unimplemented!() }
}
pub uninterp spec fn may_unlink(child: &Node, child_index: i32, parent: &Node) -> bool;
pub uninterp spec fn may_link(child: &Node, child_index: i32, parent: &Node) -> bool;
pub uninterp spec fn may_invalidate(n: &Node) -> bool;
pub uninterp spec fn may_requeue(n: &Node) -> bool;
pub uninterp spec fn same_node(a: &Node, b: &Node) -> bool;
pub uninterp spec fn node_is_bind_main(n: &Node) -> bool;
pub uninterp spec fn node_valid(n: &Node) -> bool;
pub uninterp spec fn node_should_be_invalidated(n: &Node) -> bool;
pub uninterp spec fn node_in_rch(n: &Node) -> bool;
pub enum Kind { BindMain { _p: u8 }, Other }
#[verifier::external_body]
pub struct RecomputeHeapS { _p: u8 }
impl RecomputeHeapS {
    #[verifier::external_body]
    pub fn insert(&self, node: NodeRef) requires may_requeue(&*node) { unimplemented!() }
}
pub struct StateS { pub recompute_heap: RecomputeHeapS }
impl StateS {
    #[verifier::external_body]
    pub fn propagate_invalidity(&self) { unimplemented!() }
}
impl Node {
    #[verifier::external_body]
    pub fn remove_parent(&self, child_index: i32, parent: &Node) requires may_unlink(self, child_index, parent) { unimplemented!() }
    #[verifier::external_body]
    pub fn state_add_parent(&self, child_index: i32, parent: &Node, state: &State) requires may_link(self, child_index, parent) { unimplemented!() }
    #[verifier::external_body]
    pub fn kind(&self) -> (r: Option<&Kind>) ensures (r is Some && r.unwrap() is BindMain) == node_is_bind_main(self) { unimplemented!() }
    #[verifier::external_body]
    pub fn ptr_eq(&self, other: &Node) -> (r: bool) ensures r == same_node(self, other) { unimplemented!() }
    #[verifier::external_body]
    pub fn force_necessary(&self) -> &Cell<bool> { unimplemented!() }
    #[verifier::external_body]
    pub fn is_valid(&self) -> (r: bool) ensures r == node_valid(self) { unimplemented!() }
    #[verifier::external_body]
    pub fn should_be_invalidated(&self) -> (r: bool) ensures r == node_should_be_invalidated(self) { unimplemented!() }
    #[verifier::external_body]
    pub fn is_in_recompute_heap(&self) -> (r: bool) ensures r == node_in_rch(self) { unimplemented!() }
    #[verifier::external_body]
    pub fn needs_to_be_computed(&self) -> bool { unimplemented!() }
    #[verifier::external_body]
    pub fn propagate_invalidity_helper(&self) { unimplemented!() }
    #[verifier::external_body]
    pub fn invalidate_node(&self, state: &StateS) requires may_invalidate(self) { unimplemented!() }
    #[verifier::external_body]
    pub fn state(&self) -> Rc<StateS> { unimplemented!() }
    #[verifier::external_body]
    pub fn assert_currently_running_node_is_child(&self, name: &str) { unimplemented!() }

//@extract fn Node::expert_remove_child
//@ file: src/node.rs
//@ impl: impl ErasedNode for Node
//@ name: expert_remove_child
//@ as: fn expert_remove_child(&self, dyn_edge: &DynEdge, child_index: i32, state: &State)
//@ props: C05 C11 C14
//@ must_call the-removed-dependency-loses-this-parent: `\.\s*remove_parent\(`
//@ must_call the-removed-dependency-is-rechecked-for-necessity: `\.\s*check_if_unnecessary\(`
//@ order the-child-is-rechecked-only-after-the-edge-is-gone: `\.\s*remove_parent\(` before `\.\s*check_if_unnecessary\(`
//@ contract:
//@|     requires
//@|         forall|c: &Node, i: i32, p: &Node| #![trigger may_unlink(c, i, p)] may_unlink(c, i, p) <==> (c == edge_input(dyn_edge) && i == child_index && p == self),
//@|         forall|n: &Node| #![trigger may_recheck(n)] may_recheck(n) <==> n == edge_input(dyn_edge),
//@|     // [it-is-the-edges-child-that-is-unlinked-from-this-node-at-that-index-and-the-same-child-that-is-rechecked]
//@end

//@extract fn Node::change_child_bind_rhs
//@ file: src/node.rs
//@ impl: impl ErasedNode for Node
//@ name: change_child_bind_rhs
//@ as: fn change_child_bind_rhs(&self, old_child: Option<NodeRef>, new_child: NodeRef, child_index: i32, state: &State)
//@ props: C11
//@ must_call a-first-rhs-is-linked: `\.\s*state_add_parent\(` when `node_is_bind_main(self) && old_child is None`
//@ must_call the-old-rhs-is-unlinked: `\.\s*remove_parent\(` when `node_is_bind_main(self) && old_child is Some && !same_node(&*old_child.unwrap(), &*new_child)`
//@ must_call the-new-rhs-is-linked: `\.\s*state_add_parent\(` when `node_is_bind_main(self) && old_child is Some && !same_node(&*old_child.unwrap(), &*new_child)`
//@ must_call the-old-rhs-is-rechecked-for-necessity: `\.\s*check_if_unnecessary\(` when `node_is_bind_main(self) && old_child is Some && !same_node(&*old_child.unwrap(), &*new_child)`
//@ never_call an-unchanged-rhs-is-left-alone: `\.\s*(remove_parent|state_add_parent|check_if_unnecessary)\(` when `old_child is Some && same_node(&*old_child.unwrap(), &*new_child)`
//@ order the-old-rhs-is-unlinked-before-the-new-one-takes-its-slot: `\.\s*remove_parent\(` before `\.\s*state_add_parent\(` when `old_child is Some`
//@ order the-old-rhs-is-held-necessary-while-the-new-one-is-linked: `\.\s*force_necessary\(\)\s*\.\s*set\((?=\s*true\s*\))` before `\.\s*state_add_parent\(` when `old_child is Some`
//@ order the-hold-is-released-only-after-the-new-rhs-is-linked: `\.\s*state_add_parent\(` before `\.\s*force_necessary\(\)\s*\.\s*set\((?=\s*false\s*\))` when `old_child is Some`
//@ order the-old-rhs-is-rechecked-only-after-the-hold-is-released: `\.\s*force_necessary\(\)\s*\.\s*set\((?=\s*false\s*\))` before `\.\s*check_if_unnecessary\(` when `old_child is Some`
//@ contract:
//@|     requires
//@|         forall|c: &Node, i: i32, p: &Node| #![trigger may_link(c, i, p)] may_link(c, i, p) <==> (c == &*new_child && i == child_index && p == self),
//@|         old_child is Some ==> forall|c: &Node, i: i32, p: &Node| #![trigger may_unlink(c, i, p)] may_unlink(c, i, p) <==> (c == &*old_child.unwrap() && i == child_index && p == self),
//@|         old_child is Some ==> forall|n: &Node| #![trigger may_recheck(n)] may_recheck(n) <==> n == &*old_child.unwrap(),
//@|     // [the-new-rhs-is-linked-under-this-bind-at-that-index-and-it-is-the-old-rhs-that-is-unlinked-and-rechecked]
//@end
}

//@extract fn state::expert::invalidate
//@ file: src/state/expert.rs
//@ name: invalidate
//@ as: fn expert_invalidate(node: &NodeRef)
//@ props: C11 C14
//@ must_call the-node-is-invalidated: `\.\s*invalidate_node\(`
//@ must_call invalidity-is-propagated-to-dependants: `\.\s*propagate_invalidity\(`
//@ order dependants-are-told-after-the-node-is-invalid: `\.\s*invalidate_node\(` before `\.\s*propagate_invalidity\(`
//@ contract:
//@|     requires forall|n: &Node| #![trigger may_invalidate(n)] may_invalidate(n) <==> n == &**node,
//@|     // [it-is-that-node-that-is-invalidated]
//@end

impl StateS {
//@extract loopbody State::propagate_invalidity/each
//@ file: src/state.rs
//@ impl: impl State
//@ name: propagate_invalidity
//@ loop_containing: `propagate_invalidity_helper`
//@ as: fn propagate_invalidity__each(&self, vx_item: WeakNode)
//@ cfg: release
//@ props: C11 C14
//@ must_call a-dependant-of-an-invalid-node-that-cannot-survive-it-is-invalidated: `\.\s*invalidate_node\(` when `weak_node_target(&vx_item) is Some && node_valid(&*weak_node_target(&vx_item).unwrap()) && node_should_be_invalidated(&*weak_node_target(&vx_item).unwrap())`
//@ must_call a-dependant-that-survives-counts-its-invalid-child: `\.\s*propagate_invalidity_helper\(` when `weak_node_target(&vx_item) is Some && node_valid(&*weak_node_target(&vx_item).unwrap()) && !node_should_be_invalidated(&*weak_node_target(&vx_item).unwrap())`
//@ must_call a-surviving-dependant-is-queued-for-recompute: `\.\s*insert\(` when `weak_node_target(&vx_item) is Some && node_valid(&*weak_node_target(&vx_item).unwrap()) && !node_should_be_invalidated(&*weak_node_target(&vx_item).unwrap()) && !node_in_rch(&*weak_node_target(&vx_item).unwrap())`
//@ never_call a-queued-node-is-not-queued-twice: `\.\s*insert\(` when `weak_node_target(&vx_item) is Some && node_in_rch(&*weak_node_target(&vx_item).unwrap())`
//@ never_call an-already-invalid-node-is-left-alone: `\.\s*(invalidate_node|propagate_invalidity_helper|insert)\(` when `weak_node_target(&vx_item) is Some && !node_valid(&*weak_node_target(&vx_item).unwrap())`
//@ order the-invalid-child-is-counted-before-the-parent-is-queued: `\.\s*propagate_invalidity_helper\(` before `\.\s*insert\(`
//@ contract:
//@|     requires
//@|         weak_node_target(&vx_item) is Some ==> forall|n: &Node| #![trigger may_invalidate(n)] #![trigger may_requeue(n)]
//@|             (may_invalidate(n) <==> n == &*weak_node_target(&vx_item).unwrap()) && (may_requeue(n) <==> n == &*weak_node_target(&vx_item).unwrap()),
//@|     // [it-is-the-popped-node-that-is-invalidated-or-queued]
//@end
}

} // verus!
fn main() {}
