// Unit expert (C14): the per-node latches, counters and child-edge indices of ExpertNode (src/kind/expert.rs).
use vstd::prelude::*;
use std::rc::Rc;
use std::cell::Cell;

verus! {

pub mod trusted_rc {
    use vstd::prelude::*;
    use std::rc::Rc;
    /// trusted: cloning an Rc yields a handle to the same allocation (equal as a value)
    pub broadcast axiom fn axiom_rc_clone_is_identity<T: ?Sized>(a: Rc<T>, b: Rc<T>)
        requires #[trigger] vstd::pervasive::cloned::<Rc<T>>(a, b),
        ensures a == b;
}
broadcast use trusted_rc::axiom_rc_clone_is_identity;

//@include vx_prelude.rs
//@include std_specs.rs

// ---- trusted: engine node (opaque) and std::cell::Cell as a foreign cell ----
#[verifier::external_body]
pub struct Node { _p: u8 }
pub type NodeRef = Rc<Node>;
#[verifier::external_body]
pub struct State { _p: u8 }
pub uninterp spec fn node_necessary(n: &Node) -> bool;
pub uninterp spec fn node_in_heap(n: &Node) -> bool;
pub uninterp spec fn node_valid(n: &Node) -> bool;
/// permission predicates (call-site obligations on opaque callees): which child index may be (un)linked now
pub uninterp spec fn may_link_child_at(i: int) -> bool;
pub uninterp spec fn may_unlink_child_at(i: int) -> bool;
pub uninterp spec fn may_swap_links(i: int, j: int) -> bool;
impl Node {
    #[verifier::external_body]
    pub fn is_necessary(&self) -> (r: bool) ensures r == node_necessary(self) { unimplemented!() }
    #[verifier::external_body]
    pub fn is_in_recompute_heap(&self) -> (r: bool) ensures r == node_in_heap(self) { unimplemented!() }
    #[verifier::external_body]
    pub fn is_valid(&self) -> (r: bool) ensures r == node_valid(self) { unimplemented!() }
    #[verifier::external_body]
    pub fn state(&self) -> (r: Rc<State>) { unimplemented!() }
    #[verifier::external_body]
    pub fn packed(&self) -> (r: NodeRef) ensures *r == *self { unimplemented!() }
    #[verifier::external_body]
    pub fn as_parent_dyn_ref(&self) -> (r: &Node) ensures r == self { unimplemented!() }
    /// node.rs state_add_parent (multi-node; not under contract): callable only for the permitted child index
    #[verifier::external_body]
    pub fn state_add_parent(&self, child_index: i32, parent: &Node, state: &State)
        requires may_link_child_at(child_index as int), node_necessary(parent),
    { unimplemented!() }
    /// node.rs expert_remove_child (remove_parent + check_if_unnecessary on the child)
    #[verifier::external_body]
    pub fn expert_remove_child(&self, dyn_edge: &dyn ExpertEdge, child_index: i32, state: &State)
        requires may_unlink_child_at(child_index as int),
    { unimplemented!() }
    /// node.rs expert_swap_children_except_in_kind (index arrays of three nodes)
    #[verifier::external_body]
    pub fn expert_swap_children_except_in_kind(&self, child1: &NodeRef, child_index1: i32, child2: &NodeRef, child_index2: i32)
        requires may_swap_links(child_index1 as int, child_index2 as int),
    { unimplemented!() }
    #[verifier::external_body]
    pub fn assert_currently_running_node_is_child(&self, name: &'static str) { unimplemented!() }
}
pub struct HeapHandle { pub _p: u8 }
impl HeapHandle {
    /// RecomputeHeap::insert by the membership part of its own debug assertion
    #[verifier::external_body]
    pub fn insert(&self, node: NodeRef) requires node_necessary(&*node) && !node_in_heap(&*node) { unimplemented!() }
    #[verifier::external_body]
    pub fn insert__reached(&self, node: NodeRef) requires node_necessary(&*node) && !node_in_heap(&*node) ensures false { unimplemented!() }
}
impl State {
    #[verifier::external_body]
    pub fn heap(&self) -> (r: &HeapHandle) { unimplemented!() }
}
pub uninterp spec fn same_edge(a: &dyn ExpertEdge, b: &dyn ExpertEdge) -> bool;
#[verifier::external_body]
pub fn dyn_thin_ptr_eq(one: &dyn ExpertEdge, two: &dyn ExpertEdge) -> (r: bool)
    ensures r == same_edge(one, two)
{ unimplemented!() }

#[verifier::external_type_specification]
#[verifier::external_body]
#[verifier::reject_recursive_types(T)]
pub struct ExCell<T: ?Sized>(Cell<T>);
pub uninterp spec fn cell_val<T>(c: &Cell<T>) -> T;
pub assume_specification<T: Copy>[ Cell::<T>::get ](c: &Cell<T>) -> (r: T)
    ensures r == cell_val(c);
pub assume_specification<T>[ Cell::<T>::set ](c: &Cell<T>, v: T);
pub assume_specification<T>[ Cell::<T>::swap ](c: &Cell<T>, d: &Cell<T>);

//@extract trait ExpertEdge
//@ file: src/kind/expert.rs
//@ name: ExpertEdge
//@ rule R3: `ExpertEdge: Any + NotObserver` => `ExpertEdge` x1
//@ rule R7: `fn packed(&self) -> NodeRef;` => `spec fn packed_spec(&self) -> NodeRef; fn packed(&self) -> (r: NodeRef) ensures r == self.packed_spec();` x1
//@ rule R7: `fn index_cell(&self) -> &Cell<Option<i32>>;` => `spec fn edge_index(&self) -> Option<i32>; fn index_cell(&self) -> (r: &Cell<Option<i32>>) ensures cell_val(r) == self.edge_index();` x1
//@end

pub type PackedEdge = Rc<dyn ExpertEdge>;

// R8: the user's on_observability_change closure (Box<dyn FnMut(bool)>) is an opaque call.
#[verifier::external_body]
fn vx_user_observability_callback(is_now_observable: bool) { unimplemented!() }


//@extract struct Invalid
//@ file: src/kind/expert.rs
//@ name: Invalid
//@end

//@extract enum MakeStale
//@ file: src/kind/expert.rs
//@ name: MakeStale
//@end

//@extract struct ExpertNode
//@ file: src/kind/expert.rs
//@ name: ExpertNode
//@ cells: children, force_stale, num_invalid_children, will_fire_all_callbacks
//@ drop_fields: recompute, on_observability_change
//@end


// ---- the latch automaton of an expert node, as a spec-level model.  Every contract below ends with a
//      clause `final(self).latches() == <step>(old(self).latches())`, so the lemmas about the model are
//      lemmas about the real functions. ----
pub struct Latches { pub force_stale: bool, pub will_fire_all: bool, pub invalid: int }

spec fn l_make_stale(l: Latches) -> Latches { Latches { force_stale: true, ..l } }
spec fn l_incr(l: Latches) -> Latches { Latches { invalid: l.invalid + 1, ..l } }
spec fn l_decr(l: Latches) -> Latches { Latches { invalid: l.invalid - 1, ..l } }
spec fn l_child_list_changed(l: Latches) -> Latches { Latches { force_stale: true, ..l } }
spec fn l_before_main_ok(l: Latches) -> bool { l.invalid <= 0 }
spec fn l_before_main(l: Latches) -> Latches {
    if l.invalid > 0 { l } else { Latches { force_stale: false, will_fire_all: false, ..l } }
}
spec fn l_observability(l: Latches, now_observable: bool) -> Latches {
    if now_observable { l } else { Latches { will_fire_all: true, invalid: 0, ..l } }
}

/// C14 "make_stale forces exactly one recompute": after make_stale the node is forced stale, and the
/// first recompute that is not refused for invalid dependencies clears the latch again.
proof fn lemma_make_stale_forces_exactly_one_recompute(l: Latches)
    requires l.invalid <= 0,
    ensures
        l_make_stale(l).force_stale,
        l_before_main_ok(l_make_stale(l)),
        !l_before_main(l_make_stale(l)).force_stale,
        l_make_stale(l_make_stale(l)) == l_make_stale(l),
{ }

/// C14 invalid-dependency accounting: an invalid dependency that is pushed and then removed leaves the
/// count where it was (so the node is not refused at its next recompute), and becoming unobserved
/// forgets the count altogether.
proof fn lemma_invalid_dependency_accounting(l: Latches, k: nat)
    requires l.invalid == 0,
    ensures
        l_decr(l_incr(l)) == l,
        l_before_main_ok(l_decr(l_incr(l))),
        !l_before_main_ok(l_incr(l)),
        l_observability(l_incr(l_incr(l)), false).invalid == 0,
        l_observability(l, false).will_fire_all,
{ }

impl ExpertNode {
    spec fn latches(&self) -> Latches { Latches { force_stale: self.force_stale, will_fire_all: self.will_fire_all_callbacks, invalid: self.num_invalid_children as int } }

//@extract fn ExpertNode::incr_invalid_children
//@ file: src/kind/expert.rs
//@ impl: impl ExpertNode
//@ name: incr_invalid_children
//@ as: fn incr_invalid_children(&mut self)
//@ cells: num_invalid_children
//@ props: C14
//@ contract:
//@|     requires old(self).num_invalid_children < i32::MAX,
//@|     ensures
//@|         final(self).num_invalid_children == old(self).num_invalid_children + 1, // [counts-one-more-invalid-dependency]
//@|         final(self).latches() == l_incr(old(self).latches()), // [model-step-incr]
//@|         final(self).children == old(self).children && final(self).force_stale == old(self).force_stale && final(self).will_fire_all_callbacks == old(self).will_fire_all_callbacks, // [frame]
//@end

//@extract fn ExpertNode::decr_invalid_children
//@ file: src/kind/expert.rs
//@ impl: impl ExpertNode
//@ name: decr_invalid_children
//@ as: fn decr_invalid_children(&mut self)
//@ cells: num_invalid_children
//@ props: C14
//@ contract:
//@|     requires old(self).num_invalid_children > i32::MIN,
//@|     ensures
//@|         final(self).num_invalid_children == old(self).num_invalid_children - 1, // [counts-one-fewer-invalid-dependency]
//@|         final(self).latches() == l_decr(old(self).latches()), // [model-step-decr]
//@|         final(self).children == old(self).children && final(self).force_stale == old(self).force_stale && final(self).will_fire_all_callbacks == old(self).will_fire_all_callbacks, // [frame]
//@end

//@extract fn ExpertNode::make_stale
//@ file: src/kind/expert.rs
//@ impl: impl ExpertNode
//@ name: make_stale
//@ as: fn make_stale(&mut self) -> (r: MakeStale)
//@ cells: force_stale
//@ props: C14
//@ contract:
//@|     ensures
//@|         final(self).force_stale, // [node-is-forced-stale-afterwards]
//@|         final(self).latches() == l_make_stale(old(self).latches()), // [model-step-make-stale]
//@|         (r is AlreadyStale) == old(self).force_stale, // [already-stale-iff-was-forced]
//@|         final(self).children == old(self).children && final(self).num_invalid_children == old(self).num_invalid_children && final(self).will_fire_all_callbacks == old(self).will_fire_all_callbacks, // [frame]
//@end

//@extract fn ExpertNode::add_child_edge
//@ file: src/kind/expert.rs
//@ impl: impl ExpertNode
//@ name: add_child_edge
//@ as: fn add_child_edge(&mut self, edge: PackedEdge) -> (r: i32)
//@ cells: children, force_stale
//@ tracing: yes
//@ props: C14
//@ contract:
//@|     requires
//@|         edge.edge_index() is None,       // the edge is not already a child of some expert node
//@|         old(self).children.len() < i32::MAX,
//@|     ensures
//@|         r == old(self).children.len(), // [new-edge-index-is-old-length]
//@|         final(self).children@ == old(self).children@.push(edge), // [edge-appended-others-kept]
//@|         final(self).force_stale, // [adding-a-dependency-forces-a-recompute]
//@|         final(self).latches() == l_child_list_changed(old(self).latches()), // [model-step-child-list-changed]
//@|         final(self).num_invalid_children == old(self).num_invalid_children && final(self).will_fire_all_callbacks == old(self).will_fire_all_callbacks, // [frame]
//@end

//@extract fn ExpertNode::add_child_edge!dup
//@ file: src/kind/expert.rs
//@ impl: impl ExpertNode
//@ name: add_child_edge
//@ as: fn add_child_edge__already_linked_must_panic(&mut self, edge: PackedEdge) -> (r: i32)
//@ cells: children, force_stale
//@ tracing: yes
//@ panics: diverge
//@ props: C14
//@ contract:
//@|     requires edge.edge_index() is Some, old(self).children.len() < i32::MAX,
//@|     ensures false, // [linking-an-edge-twice-always-panics]
//@end

//@extract fn ExpertNode::swap_children
//@ file: src/kind/expert.rs
//@ impl: impl ExpertNode
//@ name: swap_children
//@ as: fn swap_children(&mut self, one: usize, two: usize)
//@ cells: children
//@ tracing: yes
//@ props: C14
//@ contract:
//@|     requires one < old(self).children.len(), two < old(self).children.len(),
//@|     ensures
//@|         final(self).children@ == old(self).children@.update(one as int, old(self).children@[two as int]).update(two as int, old(self).children@[one as int]), // [the-two-edges-trade-places-others-kept]
//@|         final(self).force_stale == old(self).force_stale && final(self).num_invalid_children == old(self).num_invalid_children && final(self).will_fire_all_callbacks == old(self).will_fire_all_callbacks, // [frame]
//@end

//@extract fn ExpertNode::last_child_edge
//@ file: src/kind/expert.rs
//@ impl: impl ExpertNode
//@ name: last_child_edge
//@ as: fn last_child_edge(&self) -> (r: Option<PackedEdge>)
//@ cells: children
//@ props: C14
//@ contract:
//@|     ensures
//@|         self.children.len() == 0 ==> r is None, // [none-when-no-children]
//@|         self.children.len() > 0 ==> r == Some(self.children@[self.children.len() - 1]), // [last-edge]
//@end

//@extract fn ExpertNode::pop_child_edge
//@ file: src/kind/expert.rs
//@ impl: impl ExpertNode
//@ name: pop_child_edge
//@ as: fn pop_child_edge(&mut self) -> (r: Option<PackedEdge>)
//@ cells: children, force_stale
//@ props: C14
//@ contract:
//@|     ensures
//@|         old(self).children.len() == 0 ==> r is None && final(self).children@ == old(self).children@ && final(self).force_stale == old(self).force_stale, // [nothing-to-pop-nothing-changes]
//@|         old(self).children.len() > 0 ==> r == Some(old(self).children@[old(self).children.len() - 1]) && final(self).children@ == old(self).children@.drop_last() && final(self).latches() == l_child_list_changed(old(self).latches()), // [last-edge-removed-and-recompute-forced]
//@|         final(self).num_invalid_children == old(self).num_invalid_children && final(self).will_fire_all_callbacks == old(self).will_fire_all_callbacks, // [frame]
//@end

//@extract fn ExpertNode::before_main_computation
//@ file: src/kind/expert.rs
//@ impl: impl ExpertNode
//@ name: before_main_computation
//@ as: fn before_main_computation(&mut self) -> (r: Result<(), Invalid>)
//@ cells: children, force_stale, num_invalid_children, will_fire_all_callbacks
//@ tracing: yes
//@ props: C14
//@ contract:
//@|     ensures
//@|         (r is Err) == (old(self).num_invalid_children > 0), // [invalid-iff-some-dependency-is-invalid]
//@|         (r is Ok) == l_before_main_ok(old(self).latches()) && final(self).latches() == l_before_main(old(self).latches()), // [model-step-before-main]
//@|         r is Err ==> final(self).force_stale == old(self).force_stale && final(self).will_fire_all_callbacks == old(self).will_fire_all_callbacks, // [invalid-leaves-latches]
//@|         r is Ok ==> !final(self).force_stale, // [a-recompute-clears-the-forced-stale-latch]
//@|         r is Ok ==> !final(self).will_fire_all_callbacks, // [fire-all-latch-is-consumed]
//@|         final(self).children@ == old(self).children@ && final(self).num_invalid_children == old(self).num_invalid_children, // [frame]
//@ loop 0:
//@|     invariant !self.force_stale, !self.will_fire_all_callbacks, self.children@ == old(self).children@, self.num_invalid_children == old(self).num_invalid_children, old(self).num_invalid_children <= 0,
//@end

//@extract fn ExpertNode::before_main_computation!must_fire
//@ file: src/kind/expert.rs
//@ impl: impl ExpertNode
//@ name: before_main_computation
//@ as: fn before_main_computation__a_rearmed_node_fires_its_callbacks_before_it_recomputes(&mut self) -> (r: Result<(), Invalid>)
//@ cells: children, force_stale, num_invalid_children, will_fire_all_callbacks
//@ tracing: yes
//@ panics: diverge
//@ rule R8 re: `(\w+)\s*\.\s*on_change\(\)` => `{ \1.on_change(); vx_diverge() }` x*
//@ rule R7 re: `for (\w+) in (\w+)\s*\{` => `for \1 in vx_it: \2 {` x*
//@ props: C14
//@ contract:
//@|     requires old(self).will_fire_all_callbacks, old(self).num_invalid_children <= 0, old(self).children@.len() > 0,
//@|     ensures false, // [on-the-first-recompute-after-being-re-armed-the-dependency-callbacks-are-reached-before-the-recompute]
//@ loop? 0:
//@|     invariant vx_it.index@ == 0, cloned@.len() > 0,
//@end

//@extract fn ExpertNode::observability_change
//@ file: src/kind/expert.rs
//@ impl: impl ExpertNode
//@ name: observability_change
//@ as: fn observability_change(&mut self, is_now_observable: bool)
//@ cells: num_invalid_children, will_fire_all_callbacks
//@ rule R8 re: `if let Some\(handler\) = self\.on_observability_change\.borrow_mut\(\)\.as_mut\(\) \{\s*handler\(is_now_observable\);\s*\}` => `vx_user_observability_callback(is_now_observable);` x1
//@ props: C14
//@ contract:
//@|     ensures
//@|         !is_now_observable ==> final(self).will_fire_all_callbacks && final(self).num_invalid_children == 0, // [unobserving-rearms-fire-all-and-forgets-invalid-count]
//@|         final(self).latches() == l_observability(old(self).latches(), is_now_observable), // [model-step-observability]
//@|         is_now_observable ==> final(self).will_fire_all_callbacks == old(self).will_fire_all_callbacks && final(self).num_invalid_children == old(self).num_invalid_children, // [observing-leaves-latches]
//@|         final(self).children@ == old(self).children@ && final(self).force_stale == old(self).force_stale, // [frame]
//@end

//@extract fn ExpertNode::run_edge_callback
//@ file: src/kind/expert.rs
//@ impl: impl ExpertNode
//@ name: run_edge_callback
//@ as: fn run_edge_callback(&mut self, child_index: i32)
//@ cells: children, will_fire_all_callbacks
//@ tracing: yes
//@ props: C14
//@ contract:
//@|     ensures
//@|         final(self).children@ == old(self).children@ && final(self).force_stale == old(self).force_stale && final(self).num_invalid_children == old(self).num_invalid_children && final(self).will_fire_all_callbacks == old(self).will_fire_all_callbacks, // [frame]
//@end
}


// ---- Edge::on_change: delivering a child's value to the user's change callback ----
pub uninterp spec fn node_value(n: &ValueNode) -> Option<u64>;
#[verifier::external_body]
pub struct ValueNode { _p: u8 }
impl ValueNode {
    #[verifier::external_body]
    pub fn value_as_ref(&self) -> (r: Option<u64>) ensures r == node_value(self) { unimplemented!() }
}
pub struct IncrU64 { pub node: ValueNode }
/// permission predicate: which value the user's change callback may be handed now
pub uninterp spec fn may_deliver(x: u64) -> bool;
/// R8: the boxed user callback `Box<dyn FnMut(&T)>` is an opaque call
#[verifier::external_body]
pub fn vx_user_on_change<F>(h: &mut F, x: &u64) requires may_deliver(*x) { unimplemented!() }

//@extract struct Edge
//@ file: src/kind/expert.rs
//@ name: Edge
//@ cells: on_change, index
//@ rule R8: `Edge<T>` => `Edge<F>` x1
//@ rule R4: `child: Incr<T>` => `child: IncrU64` x1
//@ rule R8: `Option<BoxedOnChange<T>>` => `Option<F>` x1
//@end

impl<F> Edge<F> {
//@extract fn Edge::on_change
//@ file: src/kind/expert.rs
//@ impl: impl<T: Value> ExpertEdge for Edge<T>
//@ name: on_change
//@ as: fn on_change(&mut self)
//@ cells: on_change
//@ rule R8 re: `\bh\(` => `vx_user_on_change(h, ` x1
//@ props: C14
//@ contract:
//@|     requires forall|x: u64| may_deliver(x) <==> node_value(&old(self).child.node) == Some(x),
//@|     // [the-change-callback-never-panics-and-is-only-ever-handed-the-childs-current-value]: in particular a
//@|     // child that has no value yet (edge just linked) is an obligation on the unwrap, not a precondition
//@end
}

// ---- node.rs: adding / removing a dependency of an expert node.  R5p: the expert payload of `self`
//      (`let Some(Kind::Expert(expert)) = self.kind() else { return; }`) is passed as `expert: &mut ExpertNode`;
//      the multi-node callees are opaque, with call-site obligations (permission predicates). ----
spec fn edges_indexed(e: &ExpertNode) -> bool {
    forall|i: int| 0 <= i < e.children@.len() ==> (#[trigger] e.children@[i]).edge_index() == Some(i as i32)
}

impl Node {
//@extract fn Node::expert_make_stale
//@ file: src/node.rs
//@ impl: impl ErasedNode for Node
//@ name: expert_make_stale
//@ as: fn expert_make_stale(&self, expert: &mut ExpertNode)
//@ rule R5p re: `let Some\(Kind::Expert\(expert\)\) = self\.kind\(\) else \{\s*return;\s*\};` => `` x1
//@ rule R8: `t.recompute_heap.insert(` => `t.heap().insert(` x*
//@ props: C14
//@ contract:
//@|     ensures
//@|         node_valid(self) ==> final(expert).latches() == l_make_stale(old(expert).latches()), // [a-valid-expert-node-is-forced-stale]
//@|         !node_valid(self) ==> final(expert).latches() == old(expert).latches(), // [an-invalid-one-is-left-alone]
//@|         final(expert).children@ == old(expert).children@, // [frame]
//@end

//@extract fn Node::expert_make_stale!must_queue
//@ file: src/node.rs
//@ impl: impl ErasedNode for Node
//@ name: expert_make_stale
//@ as: fn expert_make_stale__a_needed_node_that_was_not_forced_yet_is_queued(&self, expert: &mut ExpertNode)
//@ panics: diverge
//@ rule R5p re: `let Some\(Kind::Expert\(expert\)\) = self\.kind\(\) else \{\s*return;\s*\};` => `` x1
//@ rule R8: `t.recompute_heap.insert(` => `t.heap().insert__reached(` x*
//@ props: C14
//@ contract:
//@|     requires node_valid(self), !old(expert).force_stale, node_necessary(self), !node_in_heap(self),
//@|     ensures false, // [make_stale-on-a-needed-node-that-is-not-queued-always-queues-it-for-one-recompute]
//@end

//@extract fn Node::expert_add_dependency
//@ file: src/node.rs
//@ impl: impl ErasedNode for Node
//@ name: expert_add_dependency
//@ as: fn expert_add_dependency(&self, expert: &mut ExpertNode, packed_edge: PackedEdge)
//@ tracing: yes
//@ rule R5p re: `let Some\(Kind::Expert\(expert\)\) = self\.kind\(\) else \{\s*return;\s*\};` => `` x1
//@ rule R8: `vx_assert(self.needs_to_be_computed());` => `` x*
//@ rule R8: `state.recompute_heap.insert(` => `state.heap().insert(` x*
//@ props: C14
//@ contract:
//@|     requires
//@|         packed_edge.edge_index() is None,
//@|         old(expert).children.len() < i32::MAX,
//@|         forall|i: int| may_link_child_at(i) <==> i == old(expert).children.len(),   // the child may only be linked under its new index
//@|     ensures
//@|         final(expert).children@ == old(expert).children@.push(packed_edge), // [dependency-appended-others-kept]
//@|         final(expert).latches() == l_child_list_changed(old(expert).latches()), // [adding-a-dependency-forces-one-recompute]
//@end

//@extract fn Node::expert_remove_dependency
//@ file: src/node.rs
//@ impl: impl ErasedNode for Node
//@ name: expert_remove_dependency
//@ as: fn expert_remove_dependency(&self, expert: &mut ExpertNode, dyn_edge: &dyn ExpertEdge)
//@ tracing: yes
//@ cells@expert: force_stale
//@ rule R5p re: `let Some\(Kind::Expert\(expert\)\) = self\.kind\(\) else \{\s*return;\s*\};` => `` x1
//@ rule R8: `vx_assert(self.is_stale());` => `` x*
//@ rule R8: `state.recompute_heap.insert(` => `state.heap().insert(` x*
//@ props: C14
//@ contract:
//@|     requires
//@|         edges_indexed(old(expert)),
//@|         old(expert).children.len() >= 1, old(expert).children.len() < i32::MAX,
//@|         dyn_edge.edge_index() is Some,
//@|         0 <= dyn_edge.edge_index().unwrap() < old(expert).children.len(),
//@|         same_edge(&*old(expert).children@[dyn_edge.edge_index().unwrap() as int], dyn_edge),   // the edge being removed is the one filed under its index
//@|         old(expert).num_invalid_children > i32::MIN,
//@|         forall|i: int| may_unlink_child_at(i) <==> i == old(expert).children.len() - 1,           // the child is unlinked under the index it was swapped to
//@|         forall|i: int, j: int| may_swap_links(i, j) <==> (i == dyn_edge.edge_index().unwrap() && j == old(expert).children.len() - 1),
//@|     ensures
//@|         final(expert).children@ == old(expert).children@.update(dyn_edge.edge_index().unwrap() as int, old(expert).children@[old(expert).children.len() - 1]).drop_last(), // [exactly-that-dependency-removed-last-one-takes-its-place]
//@|         final(expert).force_stale, // [removing-a-dependency-forces-one-recompute]
//@|         final(expert).will_fire_all_callbacks == old(expert).will_fire_all_callbacks, // [frame]
//@|         final(expert).num_invalid_children == old(expert).num_invalid_children - (if node_necessary(self) && !node_valid(&*dyn_edge.packed_spec()) { 1int } else { 0int }), // [an-invalid-dependency-that-is-removed-is-no-longer-counted]
//@end
}

} // verus!
fn main() {}
