// Unit expert (C14): the per-node latches, counters and child-edge indices of ExpertNode (src/kind/expert.rs).
use vstd::prelude::*;
use std::rc::Rc;
use std::cell::Cell;

verus! {

//@include vx_prelude.rs
//@include std_specs.rs

// ---- trusted: engine node (opaque) and std::cell::Cell as a foreign cell ----
#[verifier::external_body]
pub struct Node { _p: u8 }
pub type NodeRef = Rc<Node>;

#[verifier::external_type_specification]
#[verifier::external_body]
#[verifier::reject_recursive_types(T)]
pub struct ExCell<T: ?Sized>(Cell<T>);
pub uninterp spec fn cell_val<T>(c: &Cell<T>) -> T;
pub assume_specification<T: Copy>[ Cell::<T>::get ](c: &Cell<T>) -> (r: T)
    ensures r == cell_val(c);
pub assume_specification<T>[ Cell::<T>::set ](c: &Cell<T>, v: T);
pub assume_specification<T>[ Cell::<T>::swap ](c: &Cell<T>, d: &Cell<T>);

//@extract trait ExpertEdge
//@ file: src/kind/expert.rs
//@ name: ExpertEdge
//@ rule R3: `ExpertEdge: Any + NotObserver` => `ExpertEdge` x1
//@ rule R7: `fn index_cell(&self) -> &Cell<Option<i32>>;` => `spec fn edge_index(&self) -> Option<i32>; fn index_cell(&self) -> (r: &Cell<Option<i32>>) ensures cell_val(r) == self.edge_index();` x1
//@end

pub type PackedEdge = Rc<dyn ExpertEdge>;

// R8: the user's on_observability_change closure (Box<dyn FnMut(bool)>) is an opaque call.
#[verifier::external_body]
fn vx_user_observability_callback(is_now_observable: bool) { unimplemented!() }


//@extract struct Invalid
//@ file: src/kind/expert.rs
//@ name: Invalid
//@end

//@extract enum MakeStale
//@ file: src/kind/expert.rs
//@ name: MakeStale
//@end

//@extract struct ExpertNode
//@ file: src/kind/expert.rs
//@ name: ExpertNode
//@ cells: children, force_stale, num_invalid_children, will_fire_all_callbacks
//@ drop_fields: recompute, on_observability_change
//@end


// ---- the latch automaton of an expert node, as a spec-level model.  Every contract below ends with a
//      clause `final(self).latches() == <step>(old(self).latches())`, so the lemmas about the model are
//      lemmas about the real functions. ----
pub struct Latches { pub force_stale: bool, pub will_fire_all: bool, pub invalid: int }

spec fn l_make_stale(l: Latches) -> Latches { Latches { force_stale: true, ..l } }
spec fn l_incr(l: Latches) -> Latches { Latches { invalid: l.invalid + 1, ..l } }
spec fn l_decr(l: Latches) -> Latches { Latches { invalid: l.invalid - 1, ..l } }
spec fn l_child_list_changed(l: Latches) -> Latches { Latches { force_stale: true, ..l } }
spec fn l_before_main_ok(l: Latches) -> bool { l.invalid <= 0 }
spec fn l_before_main(l: Latches) -> Latches {
    if l.invalid > 0 { l } else { Latches { force_stale: false, will_fire_all: false, ..l } }
}
spec fn l_observability(l: Latches, now_observable: bool) -> Latches {
    if now_observable { l } else { Latches { will_fire_all: true, invalid: 0, ..l } }
}

/// C14 "make_stale forces exactly one recompute": after make_stale the node is forced stale, and the
/// first recompute that is not refused for invalid dependencies clears the latch again.
proof fn lemma_make_stale_forces_exactly_one_recompute(l: Latches)
    requires l.invalid <= 0,
    ensures
        l_make_stale(l).force_stale,
        l_before_main_ok(l_make_stale(l)),
        !l_before_main(l_make_stale(l)).force_stale,
        l_make_stale(l_make_stale(l)) == l_make_stale(l),
{ }

/// C14 invalid-dependency accounting: an invalid dependency that is pushed and then removed leaves the
/// count where it was (so the node is not refused at its next recompute), and becoming unobserved
/// forgets the count altogether.
proof fn lemma_invalid_dependency_accounting(l: Latches, k: nat)
    requires l.invalid == 0,
    ensures
        l_decr(l_incr(l)) == l,
        l_before_main_ok(l_decr(l_incr(l))),
        !l_before_main_ok(l_incr(l)),
        l_observability(l_incr(l_incr(l)), false).invalid == 0,
        l_observability(l, false).will_fire_all,
{ }

impl ExpertNode {
    spec fn latches(&self) -> Latches { Latches { force_stale: self.force_stale, will_fire_all: self.will_fire_all_callbacks, invalid: self.num_invalid_children as int } }

//@extract fn ExpertNode::incr_invalid_children
//@ file: src/kind/expert.rs
//@ impl: impl ExpertNode
//@ name: incr_invalid_children
//@ as: fn incr_invalid_children(&mut self)
//@ cells: num_invalid_children
//@ props: C14
//@ contract:
//@|     requires old(self).num_invalid_children < i32::MAX,
//@|     ensures
//@|         final(self).num_invalid_children == old(self).num_invalid_children + 1, // [counts-one-more-invalid-dependency]
//@|         final(self).latches() == l_incr(old(self).latches()), // [model-step-incr]
//@|         final(self).children == old(self).children && final(self).force_stale == old(self).force_stale && final(self).will_fire_all_callbacks == old(self).will_fire_all_callbacks, // [frame]
//@end

//@extract fn ExpertNode::decr_invalid_children
//@ file: src/kind/expert.rs
//@ impl: impl ExpertNode
//@ name: decr_invalid_children
//@ as: fn decr_invalid_children(&mut self)
//@ cells: num_invalid_children
//@ props: C14
//@ contract:
//@|     requires old(self).num_invalid_children > i32::MIN,
//@|     ensures
//@|         final(self).num_invalid_children == old(self).num_invalid_children - 1, // [counts-one-fewer-invalid-dependency]
//@|         final(self).latches() == l_decr(old(self).latches()), // [model-step-decr]
//@|         final(self).children == old(self).children && final(self).force_stale == old(self).force_stale && final(self).will_fire_all_callbacks == old(self).will_fire_all_callbacks, // [frame]
//@end

//@extract fn ExpertNode::make_stale
//@ file: src/kind/expert.rs
//@ impl: impl ExpertNode
//@ name: make_stale
//@ as: fn make_stale(&mut self) -> (r: MakeStale)
//@ cells: force_stale
//@ props: C14
//@ contract:
//@|     ensures
//@|         final(self).force_stale, // [node-is-forced-stale-afterwards]
//@|         final(self).latches() == l_make_stale(old(self).latches()), // [model-step-make-stale]
//@|         (r is AlreadyStale) == old(self).force_stale, // [already-stale-iff-was-forced]
//@|         final(self).children == old(self).children && final(self).num_invalid_children == old(self).num_invalid_children && final(self).will_fire_all_callbacks == old(self).will_fire_all_callbacks, // [frame]
//@end

//@extract fn ExpertNode::add_child_edge
//@ file: src/kind/expert.rs
//@ impl: impl ExpertNode
//@ name: add_child_edge
//@ as: fn add_child_edge(&mut self, edge: PackedEdge) -> (r: i32)
//@ cells: children, force_stale
//@ tracing: yes
//@ props: C14
//@ contract:
//@|     requires
//@|         edge.edge_index() is None,       // the edge is not already a child of some expert node
//@|         old(self).children.len() < i32::MAX,
//@|     ensures
//@|         r == old(self).children.len(), // [new-edge-index-is-old-length]
//@|         final(self).children@ == old(self).children@.push(edge), // [edge-appended-others-kept]
//@|         final(self).force_stale, // [adding-a-dependency-forces-a-recompute]
//@|         final(self).latches() == l_child_list_changed(old(self).latches()), // [model-step-child-list-changed]
//@|         final(self).num_invalid_children == old(self).num_invalid_children && final(self).will_fire_all_callbacks == old(self).will_fire_all_callbacks, // [frame]
//@end

//@extract fn ExpertNode::add_child_edge!dup
//@ file: src/kind/expert.rs
//@ impl: impl ExpertNode
//@ name: add_child_edge
//@ as: fn add_child_edge__already_linked_must_panic(&mut self, edge: PackedEdge) -> (r: i32)
//@ cells: children, force_stale
//@ tracing: yes
//@ panics: diverge
//@ props: C14
//@ contract:
//@|     requires edge.edge_index() is Some, old(self).children.len() < i32::MAX,
//@|     ensures false, // [linking-an-edge-twice-always-panics]
//@end

//@extract fn ExpertNode::swap_children
//@ file: src/kind/expert.rs
//@ impl: impl ExpertNode
//@ name: swap_children
//@ as: fn swap_children(&mut self, one: usize, two: usize)
//@ cells: children
//@ tracing: yes
//@ props: C14
//@ contract:
//@|     requires one < old(self).children.len(), two < old(self).children.len(),
//@|     ensures
//@|         final(self).children@ == old(self).children@.update(one as int, old(self).children@[two as int]).update(two as int, old(self).children@[one as int]), // [the-two-edges-trade-places-others-kept]
//@|         final(self).force_stale == old(self).force_stale && final(self).num_invalid_children == old(self).num_invalid_children && final(self).will_fire_all_callbacks == old(self).will_fire_all_callbacks, // [frame]
//@end

//@extract fn ExpertNode::last_child_edge
//@ file: src/kind/expert.rs
//@ impl: impl ExpertNode
//@ name: last_child_edge
//@ as: fn last_child_edge(&self) -> (r: Option<PackedEdge>)
//@ cells: children
//@ props: C14
//@ contract:
//@|     ensures
//@|         self.children.len() == 0 ==> r is None, // [none-when-no-children]
//@|         self.children.len() > 0 ==> r is Some, // [some-when-there-is-a-last-edge] (that it is a clone of the last edge rests on Rc::clone, unspecified for Rc<dyn>)
//@end

//@extract fn ExpertNode::pop_child_edge
//@ file: src/kind/expert.rs
//@ impl: impl ExpertNode
//@ name: pop_child_edge
//@ as: fn pop_child_edge(&mut self) -> (r: Option<PackedEdge>)
//@ cells: children, force_stale
//@ props: C14
//@ contract:
//@|     ensures
//@|         old(self).children.len() == 0 ==> r is None && final(self).children@ == old(self).children@ && final(self).force_stale == old(self).force_stale, // [nothing-to-pop-nothing-changes]
//@|         old(self).children.len() > 0 ==> r == Some(old(self).children@[old(self).children.len() - 1]) && final(self).children@ == old(self).children@.drop_last() && final(self).latches() == l_child_list_changed(old(self).latches()), // [last-edge-removed-and-recompute-forced]
//@|         final(self).num_invalid_children == old(self).num_invalid_children && final(self).will_fire_all_callbacks == old(self).will_fire_all_callbacks, // [frame]
//@end

//@extract fn ExpertNode::before_main_computation
//@ file: src/kind/expert.rs
//@ impl: impl ExpertNode
//@ name: before_main_computation
//@ as: fn before_main_computation(&mut self) -> (r: Result<(), Invalid>)
//@ cells: children, force_stale, num_invalid_children, will_fire_all_callbacks
//@ tracing: yes
//@ props: C14
//@ contract:
//@|     ensures
//@|         (r is Err) == (old(self).num_invalid_children > 0), // [invalid-iff-some-dependency-is-invalid]
//@|         (r is Ok) == l_before_main_ok(old(self).latches()) && final(self).latches() == l_before_main(old(self).latches()), // [model-step-before-main]
//@|         r is Err ==> final(self).force_stale == old(self).force_stale && final(self).will_fire_all_callbacks == old(self).will_fire_all_callbacks, // [invalid-leaves-latches]
//@|         r is Ok ==> !final(self).force_stale, // [a-recompute-clears-the-forced-stale-latch]
//@|         r is Ok ==> !final(self).will_fire_all_callbacks, // [fire-all-latch-is-consumed]
//@|         final(self).children@ == old(self).children@ && final(self).num_invalid_children == old(self).num_invalid_children, // [frame]
//@ loop 0:
//@|     invariant !self.force_stale, !self.will_fire_all_callbacks, self.children@ == old(self).children@, self.num_invalid_children == old(self).num_invalid_children, old(self).num_invalid_children <= 0,
//@end

//@extract fn ExpertNode::observability_change
//@ file: src/kind/expert.rs
//@ impl: impl ExpertNode
//@ name: observability_change
//@ as: fn observability_change(&mut self, is_now_observable: bool)
//@ cells: num_invalid_children, will_fire_all_callbacks
//@ rule R8 re: `if let Some\(handler\) = self\.on_observability_change\.borrow_mut\(\)\.as_mut\(\) \{\s*handler\(is_now_observable\);\s*\}` => `vx_user_observability_callback(is_now_observable);` x1
//@ props: C14
//@ contract:
//@|     ensures
//@|         !is_now_observable ==> final(self).will_fire_all_callbacks && final(self).num_invalid_children == 0, // [unobserving-rearms-fire-all-and-forgets-invalid-count]
//@|         final(self).latches() == l_observability(old(self).latches(), is_now_observable), // [model-step-observability]
//@|         is_now_observable ==> final(self).will_fire_all_callbacks == old(self).will_fire_all_callbacks && final(self).num_invalid_children == old(self).num_invalid_children, // [observing-leaves-latches]
//@|         final(self).children@ == old(self).children@ && final(self).force_stale == old(self).force_stale, // [frame]
//@end

//@extract fn ExpertNode::run_edge_callback
//@ file: src/kind/expert.rs
//@ impl: impl ExpertNode
//@ name: run_edge_callback
//@ as: fn run_edge_callback(&mut self, child_index: i32)
//@ cells: children, will_fire_all_callbacks
//@ tracing: yes
//@ props: C14
//@ contract:
//@|     ensures
//@|         final(self).children@ == old(self).children@ && final(self).force_stale == old(self).force_stale && final(self).num_invalid_children == old(self).num_invalid_children && final(self).will_fire_all_callbacks == old(self).will_fire_all_callbacks, // [frame]
//@end
}

} // verus!
fn main() {}
