#![feature(allocator_api)]
// Unit heaps (C19): AdjustHeightsHeap / RecomputeHeap limit arithmetic and panic sites.
use vstd::prelude::*;
use std::collections::VecDeque;
use std::rc::Rc;
use std::cell::Cell;

verus! {

pub mod trusted_clone {
    use vstd::prelude::*;
    use std::collections::VecDeque;
    /// trusted: a clone of a VecDeque has as many elements as the original (Vec::resize fills with clones)
    pub broadcast axiom fn axiom_vecdeque_clone_len<T: Clone>(a: VecDeque<T>, b: VecDeque<T>)
        requires #[trigger] vstd::pervasive::cloned::<VecDeque<T>>(a, b),
        ensures a@.len() == b@.len();
}
broadcast use trusted_clone::axiom_vecdeque_clone_len;

//@include vx_prelude.rs
//@include std_more.rs

// ---- trusted: the engine's node, opaque.  Foreign cells (R8): a read returns the value of an
//      uninterpreted spec function of the node (pre-state); writes have no postcondition. ----
#[verifier::external_body]
pub struct Node { _p: u8 }
pub type NodeRef = Rc<Node>;

pub uninterp spec fn node_height(n: &Node) -> i32;
pub uninterp spec fn node_height_in_ahh(n: &Node) -> i32;
pub uninterp spec fn node_is_necessary(n: &Node) -> bool;
pub uninterp spec fn same_node(a: &Node, b: &Node) -> bool;

// std::cell::Cell as a foreign cell: get returns the (pre-state) value, set has no postcondition.
#[verifier::external_type_specification]
#[verifier::external_body]
#[verifier::reject_recursive_types(T)]
pub struct ExCell<T: ?Sized>(Cell<T>);
pub uninterp spec fn cell_val<T>(c: &Cell<T>) -> T;
pub assume_specification<T: Copy>[ Cell::<T>::get ](c: &Cell<T>) -> (r: T)
    ensures r == cell_val(c);
pub assume_specification<T>[ Cell::<T>::set ](c: &Cell<T>, v: T);

impl Node {
    #[verifier::external_body]
    pub fn height(&self) -> (r: i32) ensures r == node_height(self) { unimplemented!() }
    #[verifier::external_body]
    pub fn set_height(&self, height: i32) { unimplemented!() }
    #[verifier::external_body]
    pub fn height_in_adjust_heights_heap(&self) -> (r: &Cell<i32>) ensures cell_val(r) == node_height_in_ahh(self) { unimplemented!() }
    #[verifier::external_body]
    pub fn is_necessary(&self) -> (r: bool) ensures r == node_is_necessary(self) { unimplemented!() }
    #[verifier::external_body]
    pub fn height_in_recompute_heap(&self) -> (r: &Cell<i32>) ensures cell_val(r) == node_height_in_rch(self) { unimplemented!() }
    #[verifier::external_body]
    pub fn id(&self) -> (u64,) { unimplemented!() }
}
pub uninterp spec fn node_height_in_rch(n: &Node) -> i32;
pub uninterp spec fn node_needs_to_be_computed(n: &Node) -> bool;
impl Node {
    #[verifier::external_body]
    pub fn is_in_recompute_heap(&self) -> (r: bool) ensures r == (node_height_in_rch(self) >= 0) { unimplemented!() }
    #[verifier::external_body]
    pub fn needs_to_be_computed(&self) -> (r: bool) ensures r == node_needs_to_be_computed(self) { unimplemented!() }
}

#[verifier::external_body]
pub fn rc_thin_ptr_eq(one: &NodeRef, two: &NodeRef) -> (r: bool)
    ensures r == same_node(&**one, &**two)
{ unimplemented!() }

pub assume_specification<T>[ core::mem::drop ](x: T);

// R4: std::cmp::{min,max} on i32 (the only instantiation in these units) as monomorphic helpers with exact specs
pub fn vx_min_i32(a: i32, b: i32) -> (r: i32) ensures r == (if a <= b { a } else { b }) { if a <= b { a } else { b } }
pub fn vx_max_i32(a: i32, b: i32) -> (r: i32) ensures r == (if a >= b { a } else { b }) { if a >= b { a } else { b } }

pub assume_specification<T, A: std::alloc::Allocator>[ VecDeque::<T, A>::is_empty ](q: &VecDeque<T, A>) -> (r: bool)
    ensures r == (q@.len() == 0);

pub assume_specification<T, A: std::alloc::Allocator>[ VecDeque::<T, A>::swap_remove_back ](q: &mut VecDeque<T, A>, index: usize) -> (r: Option<T>)
    ensures
        index < old(q)@.len() ==> r == Some(old(q)@[index as int]) && final(q)@ == old(q)@.update(index as int, old(q)@.last()).drop_last(),
        index >= old(q)@.len() ==> r is None && final(q)@ == old(q)@;

type Queue = VecDeque<NodeRef>;

// trusted: the debug-only length recomputation (iterator sum) as an uninterpreted total
pub uninterp spec fn total_len(q: Seq<Queue>) -> nat;
#[verifier::external_body]
fn calculate_len(queues: &Vec<Queue>) -> (r: usize)
    ensures r == total_len(queues@)
{ unimplemented!() }


//@extract struct AdjustHeightsHeap
//@ file: src/adjust_heights_heap.rs
//@ name: AdjustHeightsHeap
//@end

spec fn add_unless_mem_pre(h: AdjustHeightsHeap, n: &Node) -> bool {
    node_height_in_ahh(n) == -1 ==> {
        &&& 0 <= node_height(n) <= h.mha()
        &&& h.height_lower_bound <= node_height(n)
        &&& h.length < usize::MAX
    }
}

impl AdjustHeightsHeap {
    /// The configured limit, as a mathematical integer.
    spec fn mha(&self) -> int { self.queues.len() - 1 }
    spec fn wf(&self) -> bool { 1 <= self.queues.len() <= 0x7fff_ffff }
    spec fn inv(&self) -> bool { self.wf() && 0 <= self.max_height_seen <= self.mha() }
    /// the walk's invariant (Invariant::invariant in the real code): nothing is queued below the lower bound; and a
    /// non-zero length means some bucket at or above it holds a node
    spec fn walk_inv(&self) -> bool {
        &&& self.wf()
        &&& 0 <= self.height_lower_bound
        &&& forall|i: int| 0 <= i < self.queues@.len() && i < self.height_lower_bound ==> (#[trigger] self.queues@[i])@.len() == 0
        &&& (self.length > 0 ==> exists|j: int| self.height_lower_bound <= j < self.queues@.len() && (#[trigger] self.queues@[j])@.len() > 0)
    }

//@extract fn AdjustHeightsHeap::is_empty
//@ file: src/adjust_heights_heap.rs
//@ impl: impl AdjustHeightsHeap
//@ name: is_empty
//@ as: fn is_empty(&self) -> (r: bool)
//@ props: C05 C06 C11 C19
//@ contract:
//@|     ensures r == (self.length == 0), // [empty-iff-length-zero]
//@end

//@extract fn AdjustHeightsHeap::max_height_allowed
//@ file: src/adjust_heights_heap.rs
//@ impl: impl AdjustHeightsHeap
//@ name: max_height_allowed
//@ as: fn max_height_allowed(&self) -> (r: i32)
//@ props: C05 C06 C11 C19
//@ contract:
//@|     requires self.wf(),
//@|     ensures r == self.mha(), // [limit-is-bucket-count-minus-one]
//@end

//@extract fn AdjustHeightsHeap::new
//@ file: src/adjust_heights_heap.rs
//@ impl: impl AdjustHeightsHeap
//@ name: new
//@ as: fn new(max_height_allowed: usize) -> (r: Self)
//@ props: C05 C06 C11 C19
//@ contract:
//@|     requires max_height_allowed < 0x7fff_fffe,
//@|     ensures
//@|         r.inv(), // [invariant-established]
//@|         r.mha() == max_height_allowed, // [new-limit-is-N]
//@|         r.max_height_seen == 0 && r.length == 0, // [starts-empty]
//@end

//@extract fn AdjustHeightsHeap::set_height
//@ file: src/adjust_heights_heap.rs
//@ impl: impl AdjustHeightsHeap
//@ name: set_height
//@ as: fn set_height(&mut self, node: &NodeRef, height: i32)
//@ props: C05 C06 C11 C19
//@ contract:
//@|     requires old(self).inv(), height <= old(self).mha(),
//@|     ensures
//@|         final(self).inv(), // [invariant-preserved]
//@|         final(self).queues == old(self).queues && final(self).length == old(self).length && final(self).height_lower_bound == old(self).height_lower_bound, // [frame]
//@|         final(self).max_height_seen == (if height > old(self).max_height_seen { height } else { old(self).max_height_seen }), // [max-seen-tracks-greatest-height]
//@end

//@extract fn AdjustHeightsHeap::set_height!panics
//@ file: src/adjust_heights_heap.rs
//@ impl: impl AdjustHeightsHeap
//@ name: set_height
//@ as: fn set_height__must_panic(&mut self, node: &NodeRef, height: i32)
//@ panics: diverge
//@ props: C05 C06 C11 C19
//@ contract:
//@|     requires old(self).inv(), height > old(self).mha(),
//@|     ensures false, // [height-above-limit-always-panics]
//@end

//@extract fn AdjustHeightsHeap::add_unless_mem
//@ file: src/adjust_heights_heap.rs
//@ impl: impl AdjustHeightsHeap
//@ name: add_unless_mem
//@ as: fn add_unless_mem(&mut self, node: NodeRef)
//@ props: C05 C06 C11 C19
//@ contract:
//@|     requires
//@|         old(self).inv(),
//@|         add_unless_mem_pre(*old(self), &*node),
//@|     ensures
//@|         final(self).inv(), // [invariant-preserved]
//@|         final(self).mha() == old(self).mha() && final(self).max_height_seen == old(self).max_height_seen, // [limit-and-max-seen-unchanged]
//@|         final(self).length == old(self).length + (if node_height_in_ahh(&*node) == -1 { 1int } else { 0int }), // [length-counts-the-insertion]
//@end

//@extract fn AdjustHeightsHeap::remove_min
//@ file: src/adjust_heights_heap.rs
//@ impl: impl AdjustHeightsHeap
//@ name: remove_min
//@ as: fn remove_min(&mut self) -> (r: Option<NodeRef>)
//@ attr: #[verifier::exec_allows_no_decreases_clause]
//@ props: C05 C06 C11 C19
//@ contract:
//@|     requires old(self).walk_inv(),
//@|     ensures
//@|         old(self).length == 0 ==> r is None && *final(self) == *old(self), // [nothing-queued-nothing-returned-nothing-changed]
//@|         old(self).length > 0 ==> r is Some, // [a-queued-node-is-always-found]
//@|         r is Some ==> old(self).height_lower_bound <= final(self).height_lower_bound < old(self).queues@.len(), // [lower-bound-only-rises-to-the-bucket-served]
//@|         r is Some ==> (forall|i: int| 0 <= i < final(self).height_lower_bound ==> (#[trigger] old(self).queues@[i])@.len() == 0), // [no-node-was-queued-at-a-lower-height]
//@|         r is Some ==> old(self).queues@[final(self).height_lower_bound as int]@.len() > 0 && r.unwrap() == old(self).queues@[final(self).height_lower_bound as int]@[0], // [returns-the-oldest-node-of-the-lowest-non-empty-bucket]
//@|         r is Some ==> final(self).queues@.len() == old(self).queues@.len() && final(self).queues@[final(self).height_lower_bound as int]@ == old(self).queues@[final(self).height_lower_bound as int]@.subrange(1, old(self).queues@[final(self).height_lower_bound as int]@.len() as int), // [exactly-that-node-leaves-its-bucket]
//@|         r is Some ==> (forall|i: int| 0 <= i < old(self).queues@.len() && i != final(self).height_lower_bound ==> (#[trigger] final(self).queues@[i]) == old(self).queues@[i]), // [other-buckets-untouched]
//@|         r is Some ==> final(self).length == old(self).length - 1 && final(self).max_height_seen == old(self).max_height_seen, // [one-less-queued]
//@ loop 0:
//@|     invariant_except_break
//@|         0 <= old(self).height_lower_bound <= height, self.queues@ =~= old(self).queues@, self.queues@.len() <= 0x7fff_ffff, self.length == old(self).length, self.length > 0,
//@|         self.height_lower_bound == old(self).height_lower_bound, self.max_height_seen == old(self).max_height_seen,
//@|         forall|i: int| 0 <= i < height && i < old(self).queues@.len() ==> (#[trigger] old(self).queues@[i])@.len() == 0,
//@|         exists|j: int| height <= j < old(self).queues@.len() && (#[trigger] old(self).queues@[j])@.len() > 0,
//@|     ensures
//@|         0 <= old(self).height_lower_bound <= height < old(self).queues@.len(), self.length == old(self).length, self.length > 0,
//@|         self.height_lower_bound == old(self).height_lower_bound, self.max_height_seen == old(self).max_height_seen,
//@|         forall|i: int| 0 <= i < height ==> (#[trigger] old(self).queues@[i])@.len() == 0,
//@|         *q == old(self).queues@[height as int], q@.len() > 0,
//@|         self.queues@ == old(self).queues@.update(height as int, *final(q)),
//@end

//@extract fn AdjustHeightsHeap::set_max_height_allowed
//@ file: src/adjust_heights_heap.rs
//@ impl: impl AdjustHeightsHeap
//@ name: set_max_height_allowed
//@ as: fn set_max_height_allowed(&mut self, new_mha: usize)
//@ props: C05 C06 C11 C19
//@ contract:
//@|     requires
//@|         old(self).inv(),
//@|         old(self).length == 0 && total_len(old(self).queues@) == 0,   // quiescent: the adjust-heights heap is empty outside adjust_heights
//@|         new_mha < 0x7fff_fffe,
//@|         new_mha >= old(self).max_height_seen,
//@|     ensures
//@|         final(self).inv(), // [invariant-preserved]
//@|         final(self).mha() == new_mha, // [reconfigured-limit-is-N]
//@|         final(self).max_height_seen == old(self).max_height_seen && final(self).length == 0, // [frame]
//@end

//@extract fn AdjustHeightsHeap::set_max_height_allowed!panics
//@ file: src/adjust_heights_heap.rs
//@ impl: impl AdjustHeightsHeap
//@ name: set_max_height_allowed
//@ as: fn set_max_height_allowed__must_panic(&mut self, new_mha: usize)
//@ panics: diverge
//@ props: C05 C06 C11 C19
//@ contract:
//@|     requires
//@|         old(self).inv(),
//@|         new_mha < 0x7fff_fffe,
//@|         new_mha < old(self).max_height_seen,
//@|     ensures false, // [limit-below-height-in-use-always-panics]
//@end

//@extract fn AdjustHeightsHeap::ensure_height_requirement
//@ file: src/adjust_heights_heap.rs
//@ impl: impl AdjustHeightsHeap
//@ name: ensure_height_requirement
//@ as: fn ensure_height_requirement(&mut self, original_child: &NodeRef, original_parent: &NodeRef, child: &NodeRef, parent: &NodeRef)
//@ props: C05 C06 C11 C19
//@ contract:
//@|     requires
//@|         old(self).inv(),
//@|         node_is_necessary(&**child) && node_is_necessary(&**parent),
//@|         !same_node(&**parent, &**original_child),                         // no cycle
//@|         node_height(&**child) < old(self).mha(),                          // the adjusted height fits
//@|         add_unless_mem_pre(*old(self), &**parent),
//@|     ensures
//@|         final(self).inv(), // [invariant-preserved]
//@|         final(self).mha() == old(self).mha(), // [limit-unchanged]
//@end

//@extract fn AdjustHeightsHeap::ensure_height_requirement!cycle
//@ file: src/adjust_heights_heap.rs
//@ impl: impl AdjustHeightsHeap
//@ name: ensure_height_requirement
//@ as: fn ensure_height_requirement__cycle_must_panic(&mut self, original_child: &NodeRef, original_parent: &NodeRef, child: &NodeRef, parent: &NodeRef)
//@ panics: diverge
//@ props: C05 C06 C11 C19
//@ contract:
//@|     requires
//@|         old(self).inv(),
//@|         same_node(&**parent, &**original_child),                          // the walk came back to where it started
//@|     ensures false, // [closing-a-cycle-always-panics]
//@end

//@extract fn AdjustHeightsHeap::ensure_height_requirement!too_high
//@ file: src/adjust_heights_heap.rs
//@ impl: impl AdjustHeightsHeap
//@ name: ensure_height_requirement
//@ as: fn ensure_height_requirement__too_high_must_panic(&mut self, original_child: &NodeRef, original_parent: &NodeRef, child: &NodeRef, parent: &NodeRef)
//@ rule R8: `self.set_height(parent,` => `self.set_height__must_panic(parent,` x*
//@ panics: diverge
//@ props: C05 C06 C11 C19
//@ contract:
//@|     requires
//@|         old(self).inv(),
//@|         node_height(&**child) >= node_height(&**parent),                  // an edge that needs the parent raised ...
//@|         node_height(&**child) >= old(self).mha(),                         // ... above the limit
//@|         node_height(&**child) < 0x7fff_ffff,
//@|         node_is_necessary(&**child) && node_is_necessary(&**parent),
//@|         add_unless_mem_pre(*old(self), &**parent),
//@|     ensures false, // [raising-a-node-above-the-limit-always-panics]
//@end
}


// ---- RecomputeHeap (R5 on queues / height_lower_bound / length; the per-bucket RefCell is erased too) ----
type RQueue = VecDeque<NodeRef>;

// R8: `q.iter().position(|x| rc_thin_ptr_eq(x, node))` (std Iterator::position over the bucket) as a trusted helper:
// the first index holding that node, None if there is none
#[verifier::external_body]
fn vx_position_same_node(q: &RQueue, node: &NodeRef) -> (r: Option<usize>)
    ensures
        r is Some ==> r.unwrap() < q@.len() && same_node(&*q@[r.unwrap() as int], &**node)
            && forall|k: int| 0 <= k < r.unwrap() ==> !same_node(&*#[trigger] q@[k], &**node),
        r is None ==> forall|k: int| 0 <= k < q@.len() ==> !same_node(&*#[trigger] q@[k], &**node),
{ unimplemented!() }

//@extract struct RecomputeHeap
//@ file: src/recompute_heap.rs
//@ name: RecomputeHeap
//@ cells: queues, height_lower_bound, length
//@ rule R5: `Vec<Queue>` => `Vec<RQueue>` x1
//@ rule R5: `swap: Queue` => `swap: RQueue` x1
//@end

impl RecomputeHeap {
    spec fn mha(&self) -> int { self.queues.len() - 1 }
    spec fn wf(&self) -> bool { 1 <= self.queues.len() <= 0x7fff_ffff }
    /// no node is queued below the lower bound (what remove_min relies on to find every queued node)
    spec fn lower_bound_ok(&self) -> bool {
        forall|i: int| 0 <= i < self.queues@.len() && i < self.height_lower_bound ==> (#[trigger] self.queues@[i])@.len() == 0
    }
    spec fn buckets_empty_from(&self, from: int) -> bool {
        forall|i: int| from <= i < self.queues@.len() ==> (#[trigger] self.queues@[i])@.len() == 0
    }
    /// some node is queued at height >= from
    spec fn has_nonempty_from(&self, from: int) -> bool {
        exists|j: int| from <= j < self.queues@.len() && (#[trigger] self.queues@[j])@.len() > 0
    }
    /// the scheduler's invariant: no node is queued below the lower bound, and if the length says that something is
    /// queued then some bucket at or above the lower bound holds a node
    spec fn sched_inv(&self) -> bool {
        &&& self.wf()
        &&& self.lower_bound_ok()
        &&& 0 <= self.height_lower_bound
        &&& (self.length > 0 ==> self.has_nonempty_from(self.height_lower_bound as int))
    }

//@extract fn RecomputeHeap::new
//@ file: src/recompute_heap.rs
//@ impl: impl RecomputeHeap
//@ name: new
//@ as: fn new(max_height_allowed: usize) -> (r: Self)
//@ rule R5: `queues.into()` => `queues` x1
//@ rule R5: `(max_height_allowed as i32 + 1).into()` => `(max_height_allowed as i32 + 1)` x1
//@ rule R5: `0.into()` => `0` x1
//@ rule R7: `for _ in` => `for _i in` x1
//@ props: C05 C06 C11 C19
//@ contract:
//@|     requires max_height_allowed < 0x7fff_fffe,
//@|     ensures
//@|         r.wf(), // [invariant-established]
//@|         r.mha() == max_height_allowed, // [new-limit-is-N]
//@|         r.length == 0, // [starts-empty]
//@ loop 0:
//@|     invariant queues.len() == _i, _i <= max_height_allowed + 1, max_height_allowed < 0x7fff_fffe,
//@end

//@extract fn RecomputeHeap::max_height_allowed
//@ file: src/recompute_heap.rs
//@ impl: impl RecomputeHeap
//@ name: max_height_allowed
//@ as: fn max_height_allowed(&self) -> (r: i32)
//@ cells: queues
//@ props: C05 C06 C11 C19
//@ contract:
//@|     requires self.wf(),
//@|     ensures r == self.mha(), // [limit-is-bucket-count-minus-one]
//@end

//@extract fn RecomputeHeap::set_max_height_allowed
//@ file: src/recompute_heap.rs
//@ impl: impl RecomputeHeap
//@ name: set_max_height_allowed
//@ as: fn set_max_height_allowed(&mut self, new_max_height: usize)
//@ cells: queues, height_lower_bound
//@ rule R5 re: `\bQueue::default\(\)` => `RQueue::default()` x*
//@ rule R5: `queues[i].borrow().is_empty()` => `queues[i].is_empty()` x1
//@ rule R4 re: `std::cmp::(min|max)\(` => `vx_\1_i32(` x*
//@ props: C05 C06 C11 C19
//@ loop 0:
//@|     invariant queues@ == old(self).queues@, old(self).buckets_empty_from(new_max_height + 1), new_max_height < 0x7fff_fffe, self.height_lower_bound == old(self).height_lower_bound,
//@ contract:
//@|     requires
//@|         old(self).wf(),
//@|         new_max_height < 0x7fff_fffe,
//@|         old(self).buckets_empty_from(new_max_height + 1),    // no node is scheduled above the new limit (heights in use <= N)
//@|     ensures
//@|         final(self).wf(), // [invariant-preserved]
//@|         final(self).height_lower_bound <= old(self).height_lower_bound, // [the-lower-bound-never-rises]
//@|         forall|i: int| old(self).queues@.len() <= i <= new_max_height ==> (#[trigger] final(self).queues@[i])@.len() == 0, // [new-buckets-are-empty]
//@|         final(self).mha() == new_max_height, // [reconfigured-limit-is-N]
//@|         forall|i: int| 0 <= i <= new_max_height && i < old(self).queues@.len() ==> final(self).queues@[i] == old(self).queues@[i], // [scheduled-nodes-kept]
//@|         final(self).length == old(self).length, // [frame]
//@end


//@extract fn RecomputeHeap::len
//@ file: src/recompute_heap.rs
//@ impl: impl RecomputeHeap
//@ name: len
//@ as: fn len(&self) -> (r: usize)
//@ cells: length
//@ props: C05 C06 C11 C19
//@ contract:
//@|     ensures r == self.length,
//@end

//@extract fn RecomputeHeap::is_empty
//@ file: src/recompute_heap.rs
//@ impl: impl RecomputeHeap
//@ name: is_empty
//@ as: fn is_empty(&self) -> (r: bool)
//@ props: C05 C06 C08 C11 C19
//@ contract:
//@|     ensures r == (self.length == 0), // [empty-iff-length-zero]
//@end

//@extract fn RecomputeHeap::queue_for
//@ file: src/recompute_heap.rs
//@ impl: impl RecomputeHeap
//@ name: queue_for
//@ as: fn queue_for(&mut self, height: usize) -> (r: &mut RQueue)
//@ rule R5 re: `Ref::map\(\s*(?:self\.queues\.borrow\(\)|\(&self\.queues\))\s*,\s*\|queue\|\s*&queue\[height\]\s*\)` => `self.queues.get_mut(height).unwrap()` x1
//@ props: C05 C06 C11 C19
//@ contract:
//@|     requires height < old(self).queues@.len(),
//@|     ensures
//@|         *r == old(self).queues@[height as int], // [the-bucket-of-that-height]
//@|         final(self).queues@ == old(self).queues@.update(height as int, *final(r)), // [only-that-bucket-can-change-through-it]
//@|         final(self).height_lower_bound == old(self).height_lower_bound && final(self).length == old(self).length, // [frame]
//@end

//@extract fn RecomputeHeap::link
//@ file: src/recompute_heap.rs
//@ impl: impl RecomputeHeap
//@ name: link
//@ as: fn link(&mut self, node: NodeRef)
//@ cells: queues
//@ rule R5 re: `(\w+)\.borrow_mut\(\)\.push_back\((\w+)\);` => `\1.push_back(\2);` x1
//@ props: C05 C06 C11 C19
//@ contract:
//@|     requires old(self).wf(), 0 <= node_height(&*node) <= old(self).mha(),
//@|     ensures
//@|         final(self).queues@.len() == old(self).queues@.len(), // [limit-unchanged]
//@|         final(self).queues@[node_height(&*node) as int]@ == old(self).queues@[node_height(&*node) as int]@.push(node), // [node-appended-to-the-bucket-of-its-height]
//@|         forall|i: int| 0 <= i < old(self).queues@.len() && i != node_height(&*node) ==> final(self).queues@[i] == old(self).queues@[i], // [other-buckets-untouched]
//@|         final(self).height_lower_bound == old(self).height_lower_bound && final(self).length == old(self).length, // [frame]
//@end

//@extract fn RecomputeHeap::insert
//@ file: src/recompute_heap.rs
//@ impl: impl RecomputeHeap
//@ name: insert
//@ as: fn insert(&mut self, node: NodeRef)
//@ cells: height_lower_bound, length
//@ tracing: yes
//@ props: C05 C06 C11 C19
//@ contract:
//@|     requires
//@|         old(self).wf(), old(self).lower_bound_ok(), old(self).length < usize::MAX,
//@|         0 <= node_height(&*node) <= old(self).mha(),
//@|         node_height_in_rch(&*node) < 0 && node_needs_to_be_computed(&*node),     // not queued yet, and necessary and stale
//@|     ensures
//@|         final(self).length == old(self).length + 1, // [one-more-queued]
//@|         final(self).height_lower_bound == (if node_height(&*node) < old(self).height_lower_bound { node_height(&*node) } else { old(self).height_lower_bound }), // [lower-bound-covers-the-new-node]
//@|         final(self).queues@.len() == old(self).queues@.len(), // [limit-unchanged]
//@|         final(self).queues@[node_height(&*node) as int]@ == old(self).queues@[node_height(&*node) as int]@.push(node), // [queued-in-the-bucket-of-its-height]
//@|         forall|i: int| 0 <= i < old(self).queues@.len() && i != node_height(&*node) ==> final(self).queues@[i] == old(self).queues@[i], // [other-buckets-untouched]
//@end

//@extract fn RecomputeHeap::unlink
//@ file: src/recompute_heap.rs
//@ impl: impl RecomputeHeap
//@ name: unlink
//@ as: fn unlink(&mut self, node: &NodeRef)
//@ rule R5 re: `let mut (\w+) = (\w+)\.borrow_mut\(\);` => `let \1 = \2;` x1
//@ rule R8 re: `(\w+)\.iter\(\)\.position\(\|(\w+)\|\s*rc_thin_ptr_eq\(\2,\s*(\w+)\)\)` => `vx_position_same_node(\1, \3)` x1
//@ props: C05 C06 C11 C19
//@ contract:
//@|     requires
//@|         old(self).wf(), 0 <= node_height_in_rch(&**node) <= old(self).mha(),
//@|         exists|k: int| 0 <= k < old(self).queues@[node_height_in_rch(&**node) as int]@.len() && same_node(&*#[trigger] old(self).queues@[node_height_in_rch(&**node) as int]@[k], &**node),     // it is queued where it says it is
//@|     ensures
//@|         final(self).queues@.len() == old(self).queues@.len(), // [limit-unchanged]
//@|         final(self).queues@[node_height_in_rch(&**node) as int]@.len() == old(self).queues@[node_height_in_rch(&**node) as int]@.len() - 1, // [one-node-leaves-the-bucket-it-was-queued-in]
//@|         forall|i: int| 0 <= i < old(self).queues@.len() && i != node_height_in_rch(&**node) ==> (#[trigger] final(self).queues@[i]) == old(self).queues@[i], // [other-buckets-untouched]
//@|         final(self).height_lower_bound == old(self).height_lower_bound && final(self).length == old(self).length, // [frame]
//@end

//@extract fn RecomputeHeap::unlink!not_queued
//@ file: src/recompute_heap.rs
//@ impl: impl RecomputeHeap
//@ name: unlink
//@ as: fn unlink__not_queued_must_panic(&mut self, node: &NodeRef)
//@ panics: diverge
//@ rule R5 re: `let mut (\w+) = (\w+)\.borrow_mut\(\);` => `let \1 = \2;` x1
//@ rule R8 re: `(\w+)\.iter\(\)\.position\(\|(\w+)\|\s*rc_thin_ptr_eq\(\2,\s*(\w+)\)\)` => `vx_position_same_node(\1, \3)` x1
//@ props: C05 C06 C11 C19
//@ contract:
//@|     requires
//@|         old(self).wf(), 0 <= node_height_in_rch(&**node) <= old(self).mha(),
//@|         forall|k: int| 0 <= k < old(self).queues@[node_height_in_rch(&**node) as int]@.len() ==> !same_node(&*#[trigger] old(self).queues@[node_height_in_rch(&**node) as int]@[k], &**node),
//@|     ensures false, // [unlinking-a-node-that-is-not-queued-always-panics]
//@end

//@extract fn RecomputeHeap::remove
//@ file: src/recompute_heap.rs
//@ impl: impl RecomputeHeap
//@ name: remove
//@ as: fn remove(&mut self, node: NodeRef)
//@ cells: length
//@ props: C05 C06 C11 C19
//@ contract:
//@|     requires
//@|         old(self).wf(), 0 <= node_height_in_rch(&*node) <= old(self).mha(), old(self).length > 0,
//@|         !node_needs_to_be_computed(&*node),
//@|         exists|k: int| 0 <= k < old(self).queues@[node_height_in_rch(&*node) as int]@.len() && same_node(&*#[trigger] old(self).queues@[node_height_in_rch(&*node) as int]@[k], &*node),
//@|     ensures
//@|         final(self).length == old(self).length - 1, // [one-less-queued]
//@|         final(self).queues@.len() == old(self).queues@.len(), // [limit-unchanged]
//@|         final(self).queues@[node_height_in_rch(&*node) as int]@.len() == old(self).queues@[node_height_in_rch(&*node) as int]@.len() - 1, // [one-node-leaves-the-bucket-it-was-queued-in]
//@|         forall|i: int| 0 <= i < old(self).queues@.len() && i != node_height_in_rch(&*node) ==> (#[trigger] final(self).queues@[i]) == old(self).queues@[i], // [other-buckets-untouched]
//@|         final(self).height_lower_bound == old(self).height_lower_bound, // [frame]
//@end

//@extract fn RecomputeHeap::increase_height
//@ file: src/recompute_heap.rs
//@ impl: impl RecomputeHeap
//@ name: increase_height
//@ as: fn increase_height(&mut self, node: &NodeRef)
//@ props: C05 C06 C11 C19
//@ contract:
//@|     requires
//@|         old(self).wf(), 0 <= node_height_in_rch(&**node) < node_height(&**node) <= old(self).mha(),
//@|         exists|k: int| 0 <= k < old(self).queues@[node_height_in_rch(&**node) as int]@.len() && same_node(&*#[trigger] old(self).queues@[node_height_in_rch(&**node) as int]@[k], &**node),
//@|     ensures
//@|         final(self).queues@.len() == old(self).queues@.len(), // [limit-unchanged]
//@|         final(self).queues@[node_height_in_rch(&**node) as int]@.len() == old(self).queues@[node_height_in_rch(&**node) as int]@.len() - 1, // [leaves-the-bucket-of-its-old-height]
//@|         final(self).queues@[node_height(&**node) as int]@ == old(self).queues@[node_height(&**node) as int]@.push(*node), // [requeued-in-the-bucket-of-its-new-height]
//@|         forall|i: int| 0 <= i < old(self).queues@.len() && i != node_height_in_rch(&**node) && i != node_height(&**node) ==> (#[trigger] final(self).queues@[i]) == old(self).queues@[i], // [other-buckets-untouched]
//@|         final(self).height_lower_bound == old(self).height_lower_bound && final(self).length == old(self).length, // [frame]
//@end

//@extract fn RecomputeHeap::remove_min
//@ file: src/recompute_heap.rs
//@ impl: impl RecomputeHeap
//@ name: remove_min
//@ as: fn remove_min(&mut self) -> (r: Option<NodeRef>)
//@ attr: #[verifier::exec_allows_no_decreases_clause]
//@ cells: height_lower_bound, length
//@ rule R5: `let queues = (&self.queues);` => `let queues = &mut self.queues;` x1
//@ rule R5: `let mut queue;` => `let mut queue: &mut RQueue;` x1
//@ rule R5: `queues.get(` => `queues.get_mut(` x1
//@ rule R5 re: `(\w+)\.borrow\(\)\.is_empty\(\)` => `\1.is_empty()` x1
//@ rule R5 re: `let mut (\w+) = (\w+)\.borrow_mut\(\);` => `let \1 = \2;` x1
//@ props: C05 C06 C11 C19
//@ contract:
//@|     requires old(self).sched_inv(),
//@|     ensures
//@|         old(self).length == 0 ==> r is None && *final(self) == *old(self), // [nothing-queued-nothing-returned-nothing-changed]
//@|         old(self).length > 0 ==> r is Some, // [a-queued-node-is-always-found]
//@|         r is Some ==> old(self).height_lower_bound <= final(self).height_lower_bound < old(self).queues@.len(), // [lower-bound-only-rises-to-the-bucket-served]
//@|         r is Some ==> (forall|i: int| 0 <= i < final(self).height_lower_bound ==> (#[trigger] old(self).queues@[i])@.len() == 0), // [no-node-was-queued-at-a-lower-height]
//@|         r is Some ==> old(self).queues@[final(self).height_lower_bound as int]@.len() > 0 && r.unwrap() == old(self).queues@[final(self).height_lower_bound as int]@[0], // [returns-the-oldest-node-of-the-lowest-non-empty-bucket]
//@|         r is Some ==> final(self).queues@.len() == old(self).queues@.len() && final(self).queues@[final(self).height_lower_bound as int]@ == old(self).queues@[final(self).height_lower_bound as int]@.subrange(1, old(self).queues@[final(self).height_lower_bound as int]@.len() as int), // [exactly-that-node-leaves-its-bucket]
//@|         r is Some ==> (forall|i: int| 0 <= i < old(self).queues@.len() && i != final(self).height_lower_bound ==> (#[trigger] final(self).queues@[i]) == old(self).queues@[i]), // [other-buckets-untouched]
//@|         r is Some ==> final(self).length == old(self).length - 1, // [one-less-queued]
//@ loop 0:
//@|     invariant_except_break
//@|         0 <= old(self).height_lower_bound <= self.height_lower_bound, queues@ =~= old(self).queues@, queues@.len() == len, len <= 0x7fff_ffff, self.length == old(self).length, self.length > 0,
//@|         forall|i: int| 0 <= i < self.height_lower_bound && i < len ==> (#[trigger] old(self).queues@[i])@.len() == 0,
//@|         exists|j: int| self.height_lower_bound <= j < len && (#[trigger] old(self).queues@[j])@.len() > 0,
//@|     ensures
//@|         0 <= old(self).height_lower_bound <= self.height_lower_bound < len, self.length == old(self).length, self.length > 0, len == old(self).queues@.len(),
//@|         forall|i: int| 0 <= i < self.height_lower_bound ==> (#[trigger] old(self).queues@[i])@.len() == 0,
//@|         *queue == old(self).queues@[self.height_lower_bound as int], queue@.len() > 0,
//@|         final(queues)@ == old(self).queues@.update(self.height_lower_bound as int, *final(queue)),
//@end

//@extract fn RecomputeHeap::link!too_high
//@ file: src/recompute_heap.rs
//@ impl: impl RecomputeHeap
//@ name: link
//@ as: fn link__too_high_must_panic(&mut self, node: NodeRef)
//@ cells: queues
//@ panics: diverge
//@ rule R5 re: `(\w+)\.borrow_mut\(\)\.push_back\((\w+)\);` => `\1.push_back(\2);` x*
//@ props: C05 C06 C11 C19
//@ contract:
//@|     requires old(self).wf(), node_height(&*node) > old(self).mha() || node_height(&*node) < 0,
//@|     ensures false, // [scheduling-a-node-outside-the-height-range-always-panics]
//@end
}


/// C06 / scheduling: the three clauses above give back the scheduler's invariant "no queued node lies below the lower
/// bound" (otherwise remove_min would never reach it and its change would be lost).
proof fn lemma_reconfiguring_keeps_every_queued_node_reachable(o: RecomputeHeap, f: RecomputeHeap, n: int)
    requires
        o.lower_bound_ok(), o.buckets_empty_from(n + 1),
        f.queues@.len() == n + 1,
        f.height_lower_bound <= o.height_lower_bound,
        forall|i: int| 0 <= i <= n && i < o.queues@.len() ==> (#[trigger] f.queues@[i]) == o.queues@[i],
        forall|i: int| o.queues@.len() <= i <= n ==> (#[trigger] f.queues@[i])@.len() == 0,
    ensures f.lower_bound_ok(),
{
    assert forall|i: int| 0 <= i < f.queues@.len() && i < f.height_lower_bound implies (#[trigger] f.queues@[i])@.len() == 0 by {
        if i < o.queues@.len() {
            assert(f.queues@[i] == o.queues@[i]);
            assert((#[trigger] o.queues@[i])@.len() == 0);
        }
    }
}

/// scheduling: the clauses of `insert` keep "no queued node lies below the lower bound"
proof fn lemma_insert_keeps_every_queued_node_reachable(o: RecomputeHeap, f: RecomputeHeap, h: int)
    requires
        o.lower_bound_ok(), 0 <= h < o.queues@.len(),
        f.queues@.len() == o.queues@.len(),
        f.height_lower_bound == (if h < o.height_lower_bound { h } else { o.height_lower_bound as int }),
        forall|i: int| 0 <= i < o.queues@.len() && i != h ==> (#[trigger] f.queues@[i]) == o.queues@[i],
    ensures f.lower_bound_ok(),
{
    assert forall|i: int| 0 <= i < f.queues@.len() && i < f.height_lower_bound implies (#[trigger] f.queues@[i])@.len() == 0 by {
        assert(i != h);
        assert(f.queues@[i] == o.queues@[i]);
        assert((#[trigger] o.queues@[i])@.len() == 0);
    }
}


/// number of queued nodes, bucket by bucket
pub open spec fn sum_len(q: Seq<RQueue>) -> nat
    decreases q.len(),
{
    if q.len() == 0 { 0 } else { sum_len(q.drop_last()) + q.last()@.len() }
}

proof fn lemma_sum_len_update(q: Seq<RQueue>, i: int, x: RQueue)
    requires 0 <= i < q.len(),
    ensures sum_len(q.update(i, x)) == sum_len(q) - q[i]@.len() + x@.len(),
    decreases q.len(),
{
    if i == q.len() - 1 {
        assert(q.update(i, x).drop_last() =~= q.drop_last());
    } else {
        assert(q.update(i, x).drop_last() =~= q.drop_last().update(i, x));
        lemma_sum_len_update(q.drop_last(), i, x);
    }
}

proof fn lemma_sum_len_positive_has_nonempty(q: Seq<RQueue>)
    requires sum_len(q) > 0,
    ensures exists|j: int| 0 <= j < q.len() && (#[trigger] q[j])@.len() > 0,
    decreases q.len(),
{
    if q.len() > 0 {
        if q.last()@.len() > 0 {
            assert(q[q.len() - 1]@.len() > 0);
        } else {
            lemma_sum_len_positive_has_nonempty(q.drop_last());
            let j = choose|j: int| 0 <= j < q.drop_last().len() && (#[trigger] q.drop_last()[j])@.len() > 0;
            assert(q[j]@.len() > 0);
        }
    }
}

/// scheduling, liveness half: if the length counts the queued nodes and no node lies below the lower bound, then a
/// non-zero length means a node is queued at or above the lower bound - the precondition under which remove_min is
/// proved to find it (clause a-queued-node-is-always-found)
proof fn lemma_counted_heap_satisfies_the_scheduler_invariant(h: RecomputeHeap)
    requires h.wf(), h.lower_bound_ok(), 0 <= h.height_lower_bound, h.length == sum_len(h.queues@),
    ensures h.sched_inv(),
{
    if h.length > 0 {
        lemma_sum_len_positive_has_nonempty(h.queues@);
        let j = choose|j: int| 0 <= j < h.queues@.len() && (#[trigger] h.queues@[j])@.len() > 0;
        assert(h.height_lower_bound <= j);
    }
}

/// the clauses of `remove_min` keep the count exact and every queued node reachable
proof fn lemma_remove_min_keeps_the_count_and_the_lower_bound(o: RecomputeHeap, f: RecomputeHeap)
    requires
        o.sched_inv(), o.length == sum_len(o.queues@), o.length > 0,
        o.height_lower_bound <= f.height_lower_bound < o.queues@.len(),
        forall|i: int| 0 <= i < f.height_lower_bound ==> (#[trigger] o.queues@[i])@.len() == 0,
        o.queues@[f.height_lower_bound as int]@.len() > 0,
        f.queues@.len() == o.queues@.len(),
        f.queues@[f.height_lower_bound as int]@ == o.queues@[f.height_lower_bound as int]@.subrange(1, o.queues@[f.height_lower_bound as int]@.len() as int),
        forall|i: int| 0 <= i < o.queues@.len() && i != f.height_lower_bound ==> (#[trigger] f.queues@[i]) == o.queues@[i],
        f.length == o.length - 1,
    ensures
        f.length == sum_len(f.queues@), f.sched_inv(),
{
    let h = f.height_lower_bound as int;
    assert(f.queues@ =~= o.queues@.update(h, f.queues@[h]));
    lemma_sum_len_update(o.queues@, h, f.queues@[h]);
    assert forall|i: int| 0 <= i < f.queues@.len() && i < f.height_lower_bound implies (#[trigger] f.queues@[i])@.len() == 0 by {
        assert(f.queues@[i] == o.queues@[i]);
        assert((#[trigger] o.queues@[i])@.len() == 0);
    }
    lemma_counted_heap_satisfies_the_scheduler_invariant(f);
}

/// the clauses of `insert` keep the count exact and every queued node reachable
proof fn lemma_insert_keeps_the_count(o: RecomputeHeap, f: RecomputeHeap, h: int, node: NodeRef)
    requires
        o.wf(), o.lower_bound_ok(), 0 <= o.height_lower_bound, o.length == sum_len(o.queues@), 0 <= h < o.queues@.len(),
        f.length == o.length + 1,
        f.height_lower_bound == (if h < o.height_lower_bound { h } else { o.height_lower_bound as int }),
        f.queues@.len() == o.queues@.len(),
        f.queues@[h]@ == o.queues@[h]@.push(node),
        forall|i: int| 0 <= i < o.queues@.len() && i != h ==> (#[trigger] f.queues@[i]) == o.queues@[i],
    ensures
        f.length == sum_len(f.queues@), f.sched_inv(),
{
    assert(f.queues@ =~= o.queues@.update(h, f.queues@[h]));
    lemma_sum_len_update(o.queues@, h, f.queues@[h]);
    lemma_insert_keeps_every_queued_node_reachable(o, f, h);
    lemma_counted_heap_satisfies_the_scheduler_invariant(f);
}

// ---- State: the public entry points for the limit and the nested-stabilise guard (R5 on status and
//      adjust_heights_heap; every other field of State is dropped: no function below touches it) ----
//@extract enum IncrStatus
//@ file: src/state.rs
//@ name: IncrStatus
//@ derives: Clone, Copy, Eq, PartialEq
//@ contract:
//@| #[derive(Structural)]
//@end

pub struct State {
    pub(crate) adjust_heights_heap: AdjustHeightsHeap,
    pub(crate) recompute_heap: RecomputeHeap,
    pub(crate) status: IncrStatus,
}

impl Node {
    #[verifier::external_body]
    pub fn recompute(&self, state: &State) { unimplemented!() }
}

impl RecomputeHeap {
    // in stabilise_debug the scheduler's invariant would have to be preserved by stabilise_start and Node::recompute,
    // which are not under contract: the call there goes to this opaque stub (rule R8 on that extract)
    #[verifier::external_body]
    pub(crate) fn remove_min__opaque(&mut self) -> (r: Option<NodeRef>) { unimplemented!() }
}

impl State {
    // callees of stabilise_debug that are not under contract here: no precondition, no postcondition
    #[verifier::external_body]
    fn stabilise_start(&mut self) { unimplemented!() }
    #[verifier::external_body]
    fn stabilise_end(&mut self) { unimplemented!() }

    spec fn heaps_ready_for(&self, n: usize) -> bool {
        &&& self.adjust_heights_heap.inv()
        &&& self.adjust_heights_heap.length == 0 && total_len(self.adjust_heights_heap.queues@) == 0
        &&& self.recompute_heap.wf()
        &&& self.recompute_heap.buckets_empty_from(n + 1)
        &&& n < 0x7fff_fffe
    }

//@extract fn State::set_max_height_allowed
//@ file: src/state.rs
//@ impl: impl State
//@ name: set_max_height_allowed
//@ as: fn set_max_height_allowed(&mut self, new_max_height: usize)
//@ cells: status, adjust_heights_heap
//@ props: C06 C19
//@ contract:
//@|     requires
//@|         !(old(self).status is Stabilising),
//@|         old(self).heaps_ready_for(new_max_height),
//@|         new_max_height >= old(self).adjust_heights_heap.max_height_seen,     // N is at least the greatest height in use
//@|     ensures
//@|         final(self).adjust_heights_heap.inv() && final(self).recompute_heap.wf(), // [invariants-preserved]
//@|         final(self).adjust_heights_heap.mha() == new_max_height, // [height-check-limit-is-N]
//@|         final(self).recompute_heap.mha() == new_max_height, // [scheduler-limit-is-N]
//@|         final(self).status == old(self).status, // [status-unchanged]
//@end

//@extract fn State::set_max_height_allowed!stabilising
//@ file: src/state.rs
//@ impl: impl State
//@ name: set_max_height_allowed
//@ as: fn set_max_height_allowed__stabilising_must_panic(&mut self, new_max_height: usize)
//@ cells: status, adjust_heights_heap
//@ panics: diverge
//@ props: C06 C19
//@ contract:
//@|     requires old(self).status is Stabilising, old(self).heaps_ready_for(new_max_height), new_max_height >= old(self).adjust_heights_heap.max_height_seen,
//@|     ensures false, // [reconfiguring-during-stabilise-always-panics]
//@end

//@extract fn State::set_max_height_allowed!too_low
//@ file: src/state.rs
//@ impl: impl State
//@ name: set_max_height_allowed
//@ as: fn set_max_height_allowed__too_low_must_panic(&mut self, new_max_height: usize)
//@ cells: status, adjust_heights_heap
//@ rule R8: `ah_heap.set_max_height_allowed(` => `ah_heap.set_max_height_allowed__must_panic(` x1
//@ panics: diverge
//@ props: C06 C19
//@ contract:
//@|     requires old(self).adjust_heights_heap.inv(), new_max_height < 0x7fff_fffe, new_max_height < old(self).adjust_heights_heap.max_height_seen,
//@|     ensures false, // [limit-below-height-in-use-always-panics]
//@end

//@extract fn State::set_height
//@ file: src/state.rs
//@ impl: impl State
//@ name: set_height
//@ as: fn set_height(&mut self, node: NodeRef, height: i32)
//@ cells: adjust_heights_heap
//@ props: C19
//@ contract:
//@|     requires old(self).adjust_heights_heap.inv(), height <= old(self).adjust_heights_heap.mha(),
//@|     ensures
//@|         final(self).adjust_heights_heap.inv(), // [invariant-preserved]
//@|         final(self).adjust_heights_heap.mha() == old(self).adjust_heights_heap.mha(), // [limit-unchanged]
//@end

//@extract fn State::set_height!panics
//@ file: src/state.rs
//@ impl: impl State
//@ name: set_height
//@ as: fn set_height__must_panic(&mut self, node: NodeRef, height: i32)
//@ cells: adjust_heights_heap
//@ rule R8: `ah_heap.set_height(` => `ah_heap.set_height__must_panic(` x1
//@ panics: diverge
//@ props: C19
//@ contract:
//@|     requires old(self).adjust_heights_heap.inv(), height > old(self).adjust_heights_heap.mha(),
//@|     ensures false, // [height-above-limit-always-panics]
//@end

//@extract fn State::stabilise_debug
//@ file: src/state.rs
//@ impl: impl State
//@ name: stabilise_debug
//@ as: fn stabilise_debug(&mut self, _prefix: Option<&str>)
//@ attr: #[verifier::exec_allows_no_decreases_clause]
//@ cells: status
//@ cfg: release
//@ tracing: yes
//@ rule R8: `self.recompute_heap.remove_min()` => `self.recompute_heap.remove_min__opaque()` x1
//@ props: C07 C13 C19
//@ contract:
//@|     requires old(self).status is NotStabilising,
//@end

//@extract fn State::stabilise_debug!nested
//@ file: src/state.rs
//@ impl: impl State
//@ name: stabilise_debug
//@ as: fn stabilise_debug__nested_must_panic(&mut self, _prefix: Option<&str>)
//@ attr: #[verifier::exec_allows_no_decreases_clause]
//@ cells: status
//@ cfg: release
//@ tracing: yes
//@ panics: diverge
//@ rule R8: `self.recompute_heap.remove_min()` => `self.recompute_heap.remove_min__opaque()` x1
//@ props: C07 C13 C19
//@ contract:
//@|     requires !(old(self).status is NotStabilising),     // called from a node function (Stabilising) or a handler (RunningOnUpdateHandlers)
//@|     ensures false, // [nested-stabilise-always-panics-before-touching-anything]
//@end
}

} // verus!
fn main() {}
