#![feature(allocator_api)]
// Unit observer (C10, parts of C07 / C09 / C05 / C11): the observer handle automaton of
// src/internal_observer.rs, State::unsubscribe, Observer::drop.
use vstd::prelude::*;
use std::rc::Rc;
use std::cell::Cell;
use std::collections::HashMap;

verus! {

//@include vx_prelude.rs

//@extract struct ObserverId
//@ file: src/internal_observer.rs
//@ name: ObserverId
//@ derives: Copy, Clone, Hash, PartialEq, Eq
//@ contract:
//@| #[derive(Structural)]
//@end

//@extract struct SubscriptionToken
//@ file: src/internal_observer.rs
//@ name: SubscriptionToken
//@ derives: Copy, Clone, PartialEq, Eq, Hash
//@ contract:
//@| #[derive(Structural)]
//@end

//@extract enum ObserverState
//@ file: src/internal_observer.rs
//@ name: ObserverState
//@ derives: Copy, Clone, PartialEq
//@ contract:
//@| #[derive(Structural)]
//@end

//@extract enum ObserverError
//@ file: src/internal_observer.rs
//@ name: ObserverError
//@ derives: Debug, PartialEq, Eq, Clone
//@end

//@extract enum IncrStatus
//@ file: src/state.rs
//@ name: IncrStatus
//@ derives: Clone, Copy, Eq, PartialEq
//@ contract:
//@| #[derive(Structural)]
//@end

use ObserverState::*;

// trusted: a #[derive(Hash, PartialEq, Eq)] key of plain integers behaves as a hash-map key
pub mod trusted_keys {
    use vstd::prelude::*;
    use super::{SubscriptionToken, ObserverId};
    pub broadcast axiom fn axiom_token_key_model()
        ensures #[trigger] vstd::std_specs::hash::obeys_key_model::<SubscriptionToken>();
    pub broadcast axiom fn axiom_observer_id_key_model()
        ensures #[trigger] vstd::std_specs::hash::obeys_key_model::<ObserverId>();
}
broadcast use {trusted_keys::axiom_token_key_model, trusted_keys::axiom_observer_id_key_model, vstd::std_specs::hash::group_hash_axioms};

// ---- trusted stand-ins for foreign objects (only what this unit touches) ----
#[verifier::external_type_specification]
#[verifier::external_body]
#[verifier::reject_recursive_types(T)]
pub struct ExCell<T: ?Sized>(Cell<T>);
pub uninterp spec fn cell_val<T>(c: &Cell<T>) -> T;
pub assume_specification<T: Copy>[ Cell::<T>::get ](c: &Cell<T>) -> (r: T)
    ensures r == cell_val(c);

#[verifier::external_body]
pub struct OnUpdateHandler { _p: u8 }        // the subscription's handler (unit `handlers`)
#[verifier::external_body]
pub struct WeakObserver { _p: u8 }           // Weak<InternalObserver<T>> / Weak<dyn ErasedObserver>
pub uninterp spec fn weak_of(id: ObserverId) -> WeakObserver;
impl Clone for WeakObserver {
    #[verifier::external_body]
    fn clone(&self) -> (r: Self) ensures r == *self { unimplemented!() }
}

/// the engine state: `status` is a foreign cell that is only read here; the two observer queues are
/// R5-erased on the `state` parameter of disallow_future_use.
pub struct State {
    pub status: Cell<IncrStatus>,
    pub num_active_observers: usize,
    pub disallowed_observers: Vec<WeakObserver>,
}

pub uninterp spec fn node_value(n: &Node) -> Option<u64>;
pub uninterp spec fn node_state(n: &Node) -> Option<Rc<State>>;

/// the observed node: its handler counter is R5-erased (owned through `self.observing.node`).
pub struct Node {
    pub num_on_update_handlers: i32,
}
impl Node {
    #[verifier::external_body]
    pub fn value_opt(&self) -> (r: Option<u64>) ensures r == node_value(self) { unimplemented!() }
    #[verifier::external_body]
    pub fn state_opt(&self) -> (r: Option<Rc<State>>) ensures r == node_state(self) { unimplemented!() }
    #[verifier::external_body]
    pub fn add_observer(&self, id: ObserverId, weak: WeakObserver) { unimplemented!() }
    #[verifier::external_body]
    pub fn remove_observer(&self, id: ObserverId) { unimplemented!() }
}
pub struct Incr { pub node: Node }

//@defaults InternalObserver
//@ cellalias: num = self.observing.node.num_on_update_handlers
//@ rule R5: `let observing = self.observing_erased();` => `` x*
//@ rule R5 re: `let node = &self\.observing\.node;` => `let node = &self.observing.node;` x*
//@end

//@extract struct InternalObserver
//@ file: src/internal_observer.rs
//@ name: InternalObserver
//@ cells: state, on_update_handlers, next_subscriber
//@ rule R4: `InternalObserver<T>` => `InternalObserver` x1
//@ rule R4: `observing: Incr<T>` => `observing: Incr` x1
//@ rule R8: `weak_self: Weak<Self>` => `weak_self: WeakObserver` x1
//@ rule R4: `OnUpdateHandler<T>` => `OnUpdateHandler` x1
//@end

impl SubscriptionToken {
//@extract fn SubscriptionToken::succ
//@ file: src/internal_observer.rs
//@ impl: impl SubscriptionToken
//@ name: succ
//@ as: fn succ(&self) -> (r: Self)
//@ props: C10
//@ contract:
//@|     requires self.1 < i32::MAX,
//@|     ensures r.0 == self.0 && r.1 == self.1 + 1, // [next-token-same-observer]
//@end

//@extract fn SubscriptionToken::observer_id
//@ file: src/internal_observer.rs
//@ impl: impl SubscriptionToken
//@ name: observer_id
//@ as: fn observer_id(&self) -> (r: ObserverId)
//@ props: C10
//@ contract:
//@|     ensures r == self.0, // [token-names-its-observer]
//@end
}

impl InternalObserver {
    spec fn handlers(&self) -> Map<SubscriptionToken, OnUpdateHandler> { self.on_update_handlers@ }
    spec fn node_count(&self) -> int { self.observing.node.num_on_update_handlers as int }
    spec fn alive(&self) -> bool { self.state is Created || self.state is InUse }

//@extract fn InternalObserver::id
//@ file: src/internal_observer.rs
//@ impl: impl<T: Value> ErasedObserver for InternalObserver<T>
//@ name: id
//@ as: fn id(&self) -> (r: ObserverId)
//@ contract:
//@|     ensures r == self.id,
//@end

//@extract fn InternalObserver::observing_erased
//@ file: src/internal_observer.rs
//@ impl: impl<T: Value> ErasedObserver for InternalObserver<T>
//@ name: observing_erased
//@ as: fn observing_erased(&self) -> (r: &Node)
//@ rule R3: `self.observing.node.erased()` => `&self.observing.node` x1
//@ contract:
//@|     ensures r == &self.observing.node,
//@end

//@extract fn InternalObserver::incr_state
//@ file: src/internal_observer.rs
//@ impl: impl<T: Value> InternalObserver<T>
//@ name: incr_state
//@ as: fn incr_state(&self) -> (r: Option<Rc<State>>)
//@ contract:
//@|     ensures r == node_state(&self.observing.node),
//@end

//@extract fn InternalObserver::num_handlers
//@ file: src/internal_observer.rs
//@ impl: impl<T: Value> ErasedObserver for InternalObserver<T>
//@ name: num_handlers
//@ as: fn num_handlers(&self) -> (r: i32)
//@ cells: on_update_handlers
//@ props: C05 C09 C10 C11
//@ contract:
//@|     requires self.handlers().len() <= i32::MAX,
//@|     ensures r == self.handlers().len(), // [counts-registered-handlers]
//@end

//@extract fn InternalObserver::value_inner
//@ file: src/internal_observer.rs
//@ impl: impl<T: Value> InternalObserver<T>
//@ name: value_inner
//@ as: fn value_inner(&self) -> (r: Result<u64, ObserverError>)
//@ cells: state
//@ props: C07 C10 C13
//@ contract:
//@|     ensures
//@|         self.state is Created ==> r == Err::<u64, ObserverError>(ObserverError::NeverStabilised), // [unusable-until-first-stabilise]
//@|         self.state is InUse ==> r == (match node_value(&self.observing.node) { Some(v) => Ok::<u64, ObserverError>(v), None => Err(ObserverError::ObservingInvalid) }), // [in-use-returns-the-node-value]
//@|         (self.state is Disallowed || self.state is Unlinked) ==> r == Err::<u64, ObserverError>(ObserverError::Disallowed), // [dead-observer-says-Disallowed]
//@end

//@extract fn InternalObserver::try_get_value
//@ file: src/internal_observer.rs
//@ impl: impl<T: Value> InternalObserver<T>
//@ name: try_get_value
//@ as: fn try_get_value(&self) -> (r: Result<u64, ObserverError>)
//@ cells: state
//@ props: C07 C10 C13
//@ contract:
//@|     ensures
//@|         node_state(&self.observing.node) is None ==> r == Err::<u64, ObserverError>(ObserverError::ObservingInvalid), // [state-gone]
//@|         (node_state(&self.observing.node) is Some && cell_val(&node_state(&self.observing.node).unwrap().status) is Stabilising) ==> r == Err::<u64, ObserverError>(ObserverError::CurrentlyStabilising), // [no-reads-during-stabilise]
//@|         (node_state(&self.observing.node) is Some && !(cell_val(&node_state(&self.observing.node).unwrap().status) is Stabilising)) ==> {
//@|             &&& (self.state is Created ==> r == Err::<u64, ObserverError>(ObserverError::NeverStabilised))
//@|             &&& (self.state is InUse ==> r == (match node_value(&self.observing.node) { Some(v) => Ok::<u64, ObserverError>(v), None => Err(ObserverError::ObservingInvalid) }))
//@|             &&& ((self.state is Disallowed || self.state is Unlinked) ==> r == Err::<u64, ObserverError>(ObserverError::Disallowed))
//@|         }, // [outside-stabilise-follows-the-lifecycle]
//@end

//@extract fn InternalObserver::disallow_future_use
//@ file: src/internal_observer.rs
//@ impl: impl<T: Value> ErasedObserver for InternalObserver<T>
//@ name: disallow_future_use
//@ as: fn disallow_future_use(&mut self, state: &mut State)
//@ cells: state, on_update_handlers
//@ cells@state: num_active_observers, disallowed_observers
//@ props: C05 C07 C09 C10 C13
//@ contract:
//@|     requires old(self).alive() ==> old(state).num_active_observers >= 1,
//@|     ensures
//@|         old(self).state is Created ==> final(self).state is Unlinked && final(self).handlers() == Map::<SubscriptionToken, OnUpdateHandler>::empty() && final(state).disallowed_observers@ == old(state).disallowed_observers@, // [never-linked-observer-is-simply-unlinked]
//@|         old(self).state is InUse ==> final(self).state is Disallowed && final(self).handlers() == old(self).handlers() && final(state).disallowed_observers@ == old(state).disallowed_observers@.push(old(self).weak_self), // [in-use-observer-queued-for-unlinking-exactly-once]
//@|         !old(self).alive() ==> final(self).state == old(self).state && final(self).handlers() == old(self).handlers() && final(state).disallowed_observers@ == old(state).disallowed_observers@ && final(state).num_active_observers == old(state).num_active_observers, // [dead-observer-no-effect]
//@|         old(self).alive() ==> final(state).num_active_observers == old(state).num_active_observers - 1, // [one-fewer-active-observer]
//@|         final(self).id == old(self).id && final(self).next_subscriber == old(self).next_subscriber && final(self).node_count() == old(self).node_count(), // [frame]
//@|         final(self).state == lc_disallow(old(self).state), // [model-step-disallow]
//@end

//@extract fn InternalObserver::subscribe
//@ file: src/internal_observer.rs
//@ impl: impl<T: Value> InternalObserver<T>
//@ name: subscribe
//@ as: fn subscribe(&mut self, handler: OnUpdateHandler) -> (r: Result<SubscriptionToken, ObserverError>)
//@ cells: state, on_update_handlers, next_subscriber
//@ cellalias: num = self.observing.node.num_on_update_handlers
//@ props: C09 C10 C11
//@ contract:
//@|     requires old(self).next_subscriber.1 < i32::MAX, old(self).node_count() < i32::MAX,
//@|     ensures
//@|         !old(self).alive() ==> r == Err::<SubscriptionToken, ObserverError>(ObserverError::Disallowed) && final(self).handlers() == old(self).handlers() && final(self).next_subscriber == old(self).next_subscriber && final(self).node_count() == old(self).node_count(), // [dead-observer-refuses-and-is-unchanged]
//@|         old(self).alive() ==> r == Ok::<SubscriptionToken, ObserverError>(old(self).next_subscriber), // [token-is-the-next-one]
//@|         old(self).alive() ==> final(self).handlers() == old(self).handlers().insert(old(self).next_subscriber, handler), // [handler-stored-under-its-token-others-kept]
//@|         old(self).alive() ==> final(self).next_subscriber.0 == old(self).next_subscriber.0 && final(self).next_subscriber.1 == old(self).next_subscriber.1 + 1, // [tokens-never-reused]
//@|         old(self).state is InUse ==> final(self).node_count() == old(self).node_count() + 1, // [linked-observer-bumps-node-handler-count]
//@|         old(self).state is Created ==> final(self).node_count() == old(self).node_count(), // [unlinked-observer-counted-when-linked]
//@|         final(self).state == lc_keep(old(self).state) && final(self).id == old(self).id, // [model-step-keep]
//@end

//@extract fn InternalObserver::unsubscribe
//@ file: src/internal_observer.rs
//@ impl: impl<T: Value> ErasedObserver for InternalObserver<T>
//@ name: unsubscribe
//@ as: fn unsubscribe(&mut self, token: SubscriptionToken) -> (r: Result<(), ObserverError>)
//@ cells: state, on_update_handlers
//@ cellalias: num = self.observing.node.num_on_update_handlers
//@ props: C09 C10 C11
//@ contract:
//@|     requires old(self).node_count() > i32::MIN,
//@|     ensures
//@|         (token.0 != old(self).id) <==> r == Err::<(), ObserverError>(ObserverError::Mismatch), // [foreign-token-is-Mismatch]
//@|         (token.0 != old(self).id || !old(self).alive()) ==> final(self).handlers() == old(self).handlers() && final(self).node_count() == old(self).node_count(), // [rejected-or-dead-no-effect]
//@|         (token.0 == old(self).id) ==> r is Ok, // [own-token-accepted]
//@|         (token.0 == old(self).id && old(self).alive()) ==> final(self).handlers() == old(self).handlers().remove(token), // [exactly-that-handler-removed]
//@|         (token.0 == old(self).id && old(self).state is InUse) ==> final(self).node_count() == old(self).node_count() - (if old(self).handlers().contains_key(token) { 1int } else { 0int }), // [linked-observer-drops-node-handler-count-iff-a-handler-was-registered-under-the-token]
//@|         (token.0 == old(self).id && old(self).state is Created) ==> final(self).node_count() == old(self).node_count(), // [unlinked-observer-not-counted]
//@|         final(self).state == lc_keep(old(self).state) && final(self).id == old(self).id && final(self).next_subscriber == old(self).next_subscriber, // [model-step-keep]
//@end

//@extract fn InternalObserver::add_to_observed_node
//@ file: src/internal_observer.rs
//@ impl: impl<T: Value> ErasedObserver for InternalObserver<T>
//@ name: add_to_observed_node
//@ as: fn add_to_observed_node(&mut self)
//@ cells: on_update_handlers
//@ cellalias: num = self.observing.node.num_on_update_handlers
//@ props: C05 C09 C10 C11
//@ contract:
//@|     requires old(self).handlers().len() <= i32::MAX, old(self).node_count() + old(self).handlers().len() <= i32::MAX,
//@|     ensures
//@|         final(self).node_count() == old(self).node_count() + old(self).handlers().len(), // [linking-adds-this-observers-handlers-to-the-node-count]
//@|         final(self).handlers() == old(self).handlers() && final(self).state == old(self).state && final(self).id == old(self).id && final(self).next_subscriber == old(self).next_subscriber, // [frame]
//@end

//@extract fn InternalObserver::remove_from_observed_node
//@ file: src/internal_observer.rs
//@ impl: impl<T: Value> ErasedObserver for InternalObserver<T>
//@ name: remove_from_observed_node
//@ as: fn remove_from_observed_node(&mut self)
//@ cells: on_update_handlers
//@ cellalias: num = self.observing.node.num_on_update_handlers
//@ props: C05 C09 C10 C11
//@ contract:
//@|     requires old(self).handlers().len() <= i32::MAX, old(self).node_count() - old(self).handlers().len() >= i32::MIN,
//@|     ensures
//@|         final(self).node_count() == old(self).node_count() - old(self).handlers().len(), // [unlinking-takes-this-observers-handlers-off-the-node-count]
//@|         final(self).handlers() == old(self).handlers() && final(self).state == old(self).state && final(self).id == old(self).id && final(self).next_subscriber == old(self).next_subscriber, // [frame]
//@end
}



//@extract enum NodeUpdateDelayed
//@ file: src/node_update.rs
//@ name: NodeUpdateDelayed
//@ derives: Copy, Clone
//@end
//@extract struct StabilisationNum
//@ file: src/stabilisation_num.rs
//@ name: StabilisationNum
//@ derives: Copy, Clone, PartialEq, Eq
//@end
impl OnUpdateHandler {
    // unit `handlers` verifies the real body; here only *whether* it is called matters
    #[verifier::external_body]
    fn run(&mut self, node: &Node, node_update: NodeUpdateDelayed, now: StabilisationNum) { unimplemented!() }
}

// (InternalObserver::run_all is not under contract: HashMap::iter_mut / for-loops over it are outside the
//  verifier's reach; its shape is pinned by the frame obligation C09/frame/run_all-guards-each-handler.)

// ---- the node's observer registry (src/node.rs add_observer / remove_observer): R5 on `observers` ----
pub struct ObservedNode { pub observers: HashMap<ObserverId, WeakObserver> }
impl ObservedNode {
//@extract fn Node::add_observer
//@ file: src/node.rs
//@ impl: impl<R: Value> Incremental<R> for Node
//@ name: add_observer
//@ as: fn add_observer(&mut self, id: ObserverId, weak: WeakObserver)
//@ cells: observers
//@ props: C05 C10 C11
//@ contract:
//@|     ensures final(self).observers@ == old(self).observers@.insert(id, weak), // [the-observer-is-registered-under-its-id-others-kept]
//@end

//@extract fn Node::remove_observer
//@ file: src/node.rs
//@ impl: impl<R: Value> Incremental<R> for Node
//@ name: remove_observer
//@ as: fn remove_observer(&mut self, id: ObserverId)
//@ cells: observers
//@ props: C05 C10 C11
//@ contract:
//@|     ensures final(self).observers@ == old(self).observers@.remove(id), // [exactly-that-observer-is-deregistered-in-every-build]
//@end
}

// ---- State::unsubscribe (src/state.rs): routing a token to its observer never panics ----
impl InternalObserver {
    /// R8: the callee `InternalObserver::unsubscribe` reached through a shared handle; its result clauses are those
    /// verified for the real body above, its effects are invisible through `&self` and not assumed.
    #[verifier::external_body]
    fn unsubscribe__shared(&self, token: SubscriptionToken) -> (r: Result<(), ObserverError>)
        ensures
            (token.0 != self.id) <==> r == Err::<(), ObserverError>(ObserverError::Mismatch),
            (token.0 == self.id) ==> r is Ok,
    { unimplemented!() }
}

#[verifier::external_body]
pub struct WeakObs { _p: u8 }      // Weak<dyn ErasedObserver>
pub uninterp spec fn weak_target(w: &WeakObs) -> Option<Rc<InternalObserver>>;
impl WeakObs {
    #[verifier::external_body]
    fn upgrade(&self) -> (r: Option<Rc<InternalObserver>>) ensures r == weak_target(self) { unimplemented!() }
}
impl InternalObserver {
    #[verifier::external_body]
    fn unsubscribe__reached(&self, token: SubscriptionToken) -> (r: Result<(), ObserverError>)
        ensures false,
    { unimplemented!() }
}

pub struct StateObservers {
    pub all_observers: HashMap<ObserverId, Rc<InternalObserver>>,
    pub new_observers: Vec<WeakObs>,
}

impl StateObservers {
    /// registry invariant (frame obligation C10/frame/all_observers-keyed-by-id): an observer is filed under its own id
    spec fn keyed_by_id(&self) -> bool {
        forall|k: ObserverId| self.all_observers@.contains_key(k) ==> (#[trigger] self.all_observers@[k]).id == k
    }
    /// some live observer (linked, or created since the last stabilise) carries this id
    spec fn knows(&self, id: ObserverId) -> bool {
        self.all_observers@.contains_key(id)
        || exists|i: int| 0 <= i < self.new_observers@.len() && weak_target(#[trigger] &self.new_observers@[i]) is Some
               && weak_target(&self.new_observers@[i]).unwrap().id == id
    }

//@extract fn State::unsubscribe
//@ file: src/state.rs
//@ impl: impl State
//@ name: unsubscribe
//@ as: fn unsubscribe(&self, token: SubscriptionToken)
//@ cells: all_observers, new_observers
//@ rule R8: `obs.unsubscribe(token)` => `obs.unsubscribe__shared(token)` x*
//@ props: C09 C10 C11
//@ contract:
//@|     requires self.keyed_by_id(),
//@|     // [unsubscribing-through-the-state-never-panics]: each `unwrap()` is an obligation; an unknown / departed
//@|     // observer id falls through and nothing happens
//@ loop? 0:
//@|     invariant self.keyed_by_id(),
//@end

//@extract fn State::unsubscribe!must
//@ file: src/state.rs
//@ impl: impl State
//@ name: unsubscribe
//@ as: fn unsubscribe__a_live_observer_is_always_reached(&self, token: SubscriptionToken)
//@ cells: all_observers, new_observers
//@ panics: diverge
//@ rule R8: `obs.unsubscribe(token)` => `obs.unsubscribe__reached(token)` x*
//@ rule R7 re: `for (\w+) in (\w+)\.iter\(\)` => `for \1 in vx_it: \2.iter()` x*
//@ props: C09 C10 C11
//@ contract:
//@|     requires self.keyed_by_id(), self.knows(token.0),
//@|     ensures false, // [unsubscribing-through-the-state-reaches-the-tokens-observer-linked-or-not-yet-linked]
//@ loop? 0:
//@|     invariant
//@|         self.keyed_by_id(), !self.all_observers@.contains_key(token.0), self.knows(token.0), *new_obs == self.new_observers,
//@|         forall|j: int| 0 <= j < vx_it.index@ ==> !(weak_target(#[trigger] &self.new_observers@[j]) is Some && weak_target(&self.new_observers@[j]).unwrap().id == token.0),
//@end
}

// ---- C10, composed: the lifecycle as an automaton over the state field.  Each contract above ends in the clause
//      `final(self).state == lc_<op>(old(self).state)` (tagged model-step-*), the two transitions made by state.rs are
//      pinned by frame obligations (InUse only in add_new_observers, Unlinked only in disallow_future_use /
//      unlink_disallowed_observers), so the lemmas below are about the real handle. ----
spec fn lc_disallow(s: ObserverState) -> ObserverState {
    match s { ObserverState::Created => ObserverState::Unlinked, ObserverState::InUse => ObserverState::Disallowed, x => x }
}
spec fn lc_link(s: ObserverState) -> ObserverState { match s { ObserverState::Created => ObserverState::InUse, x => x } }       // add_new_observers
spec fn lc_unlink(s: ObserverState) -> ObserverState { match s { ObserverState::Disallowed => ObserverState::Unlinked, x => x } } // unlink_disallowed_observers
spec fn lc_keep(s: ObserverState) -> ObserverState { s }                                                                          // subscribe / unsubscribe / reads
spec fn lc_rank(s: ObserverState) -> int {
    match s { ObserverState::Created => 0, ObserverState::InUse => 1, ObserverState::Disallowed => 2, ObserverState::Unlinked => 3 }
}
spec fn lc_dead(s: ObserverState) -> bool { s is Disallowed || s is Unlinked }
pub enum LcOp { Disallow, Link, Unlink, Keep }
spec fn lc_step(s: ObserverState, op: LcOp) -> ObserverState {
    match op { LcOp::Disallow => lc_disallow(s), LcOp::Link => lc_link(s), LcOp::Unlink => lc_unlink(s), LcOp::Keep => lc_keep(s) }
}
spec fn lc_run(s: ObserverState, ops: Seq<LcOp>) -> ObserverState
    decreases ops.len(),
{
    if ops.len() == 0 { s } else { lc_run(lc_step(s, ops[0]), ops.drop_first()) }
}

/// over every sequence of operations the lifecycle only moves forward (Created -> InUse -> Disallowed -> Unlinked,
/// or Created -> Unlinked), a dead observer stays dead (so every clone keeps returning Disallowed and subscribing keeps
/// failing, by the contracts of value_inner / subscribe), and an observer can only be InUse after a Link, i.e. after a
/// stabilise (so it is NeverStabilised until then).
proof fn lemma_lifecycle(s: ObserverState, ops: Seq<LcOp>)
    ensures
        lc_rank(lc_run(s, ops)) >= lc_rank(s),
        lc_dead(s) ==> lc_dead(lc_run(s, ops)),
        (s is Created && lc_run(s, ops) is InUse) ==> ops.contains(LcOp::Link),
        (s is Created && !ops.contains(LcOp::Link) && !ops.contains(LcOp::Disallow)) ==> lc_run(s, ops) is Created,
    decreases ops.len(),
{
    if ops.len() > 0 {
        let s1 = lc_step(s, ops[0]);
        lemma_lifecycle(s1, ops.drop_first());
        let rest = ops.drop_first();
        if rest.contains(LcOp::Link) {
            let i = choose|i: int| 0 <= i < rest.len() && rest[i] == LcOp::Link;
            assert(ops[i + 1] == LcOp::Link);
        }
        if ops[0] == LcOp::Link { assert(ops.contains(LcOp::Link)); }
        assert(forall|o: LcOp| rest.contains(o) ==> ops.contains(o)) by {
            assert forall|o: LcOp| rest.contains(o) implies ops.contains(o) by {
                let i = choose|i: int| 0 <= i < rest.len() && rest[i] == o;
                assert(ops[i + 1] == o);
            }
        }
        if s is Created && !ops.contains(LcOp::Link) && !ops.contains(LcOp::Disallow) {
            assert(ops[0] != LcOp::Link && ops[0] != LcOp::Disallow) by {
                if ops[0] == LcOp::Link { assert(ops.contains(LcOp::Link)); }
                if ops[0] == LcOp::Disallow { assert(ops.contains(LcOp::Disallow)); }
            }
            assert(s1 is Created);
            assert(!rest.contains(LcOp::Link) && !rest.contains(LcOp::Disallow));
        }
    }
}

/// C11 (handler-count clause) / C09 bookkeeping, composed from the four contracts above: over any sequence of
/// {subscribe, unsubscribe(own token)} on a linked observer, followed by unlinking, the node's counter moves by
/// exactly the number of handlers registered through this observer, and returns to its start when it is unlinked.
pub struct CountModel { pub node_count: int, pub handlers: int, pub linked: bool }
spec fn cm_subscribe(m: CountModel) -> CountModel { CountModel { node_count: if m.linked { m.node_count + 1 } else { m.node_count }, handlers: m.handlers + 1, ..m } }
spec fn cm_unsubscribe_present(m: CountModel) -> CountModel { CountModel { node_count: if m.linked { m.node_count - 1 } else { m.node_count }, handlers: m.handlers - 1, ..m } }
spec fn cm_link(m: CountModel) -> CountModel { CountModel { node_count: m.node_count + m.handlers, linked: true, ..m } }
spec fn cm_unlink(m: CountModel) -> CountModel { CountModel { node_count: m.node_count - m.handlers, linked: false, ..m } }
spec fn cm_inv(m: CountModel, others: int) -> bool { m.node_count == others + (if m.linked { m.handlers } else { 0 }) }

proof fn lemma_handler_count_invariant(m: CountModel, others: int)
    requires cm_inv(m, others),
    ensures
        cm_inv(cm_subscribe(m), others),
        m.handlers > 0 ==> cm_inv(cm_unsubscribe_present(m), others),
        !m.linked ==> cm_inv(cm_link(m), others),
        m.linked ==> cm_inv(cm_unlink(m), others) && cm_unlink(m).node_count == others,
{ }

// ---- the public handle: clones share one lifecycle, only the last drop ends it (src/public.rs) ----
/// trusted: Rc::strong_count returns the number of live strong handles
pub uninterp spec fn rc_count<T: ?Sized, A: std::alloc::Allocator>(r: &Rc<T, A>) -> usize;
pub assume_specification<T: ?Sized, A: std::alloc::Allocator>[ Rc::<T, A>::strong_count ](this: &Rc<T, A>) -> (r: usize)
    ensures r == rc_count(this);


/// the shared observer as seen through the handle's Rc: only what Observer::drop does with it
pub struct SharedObserver { pub state: Cell<ObserverState>, pub _opaque: OnUpdateHandler }
pub uninterp spec fn shared_state_alive(o: &SharedObserver) -> bool;
pub assume_specification<T>[ Cell::<T>::set ](c: &Cell<T>, v: T);
// an Option filtered by an (unannotated) closure is either dropped or unchanged
pub assume_specification<T, P: FnOnce(&T) -> bool>[ Option::<T>::filter ](o: Option<T>, predicate: P) -> (r: Option<T>)
    ensures r is Some ==> r == o;
impl State {
    #[verifier::external_body]
    pub fn is_stabilising(&self) -> bool { unimplemented!() }
}
impl SharedObserver {
    #[verifier::external_body]
    pub fn disallow_future_use(&self, state: &State) { unimplemented!() }
    #[verifier::external_body]
    pub fn incr_state(&self) -> (r: Option<Rc<State>>) ensures r is Some == shared_state_alive(self) { unimplemented!() }
}

//@extract struct Observer
//@ file: src/public.rs
//@ name: Observer
//@ rule R4: `Observer<T: Value>` => `Observer` x1
//@ rule R8: `internal: Rc<InternalObserver<T>>` => `internal: Rc<SharedObserver>` x1
//@end

impl Observer {
//@extract fn Observer::disallow_future_use!must
//@ file: src/public.rs
//@ impl: impl<T: Value> Observer<T>
//@ name: disallow_future_use
//@ as: fn disallow_future_use(&self)
//@ panics: diverge
//@ rule R8 re: `self\s*\.\s*internal\s*\.\s*disallow_future_use\([^()]*\)` => `vx_diverge()` x1
//@ props: C05 C07 C09 C10 C13
//@ contract:
//@|     requires shared_state_alive(&*self.internal),
//@|     ensures false, // [explicit-disallow-always-reaches-the-shared-observer-whatever-its-lifecycle-state]
//@end

//@extract fn Observer::drop!not_last
//@ file: src/public.rs
//@ impl: impl<T: Value> Drop for Observer<T>
//@ name: drop
//@ as: fn drop__other_clones_alive(&mut self)
//@ rule R8 re: `self\s*\.\s*internal\s*\.\s*disallow_future_use\([^()]*\)` => `vx_forbidden()` x*
//@ rule R8 re: `self\s*\.\s*internal\s*\.\s*state\s*\.\s*set\(\s*ObserverState::Disallowed\s*\)` => `vx_forbidden()` x*
//@ props: C05 C07 C10 C13
//@ contract:
//@|     requires rc_count(&old(self).sentinel) >= 2,       // another clone of this observer handle is alive
//@|     // [dropping-a-clone-that-is-not-the-last-touches-nothing]: every transition is replaced by a call that
//@|     // can never be made (requires false), so verification means none of them is reachable
//@end

//@extract fn Observer::drop!last_state_alive
//@ file: src/public.rs
//@ impl: impl<T: Value> Drop for Observer<T>
//@ name: drop
//@ as: fn drop__last_clone_state_alive(&mut self)
//@ panics: diverge
//@ rule R8 re: `self\s*\.\s*internal\s*\.\s*disallow_future_use\([^()]*\)` => `vx_diverge()` x*
//@ rule R8 re: `self\s*\.\s*internal\s*\.\s*state\s*\.\s*set\(\s*ObserverState::Disallowed\s*\)` => `vx_forbidden()` x*
//@ props: C05 C07 C10 C13
//@ contract:
//@|     requires rc_count(&old(self).sentinel) <= 1, shared_state_alive(&*old(self).internal),
//@|     ensures false, // [dropping-the-last-clone-always-reaches-disallow_future_use]  (the call is replaced by a diverging one)
//@end

//@extract fn Observer::drop!last_state_gone
//@ file: src/public.rs
//@ impl: impl<T: Value> Drop for Observer<T>
//@ name: drop
//@ as: fn drop__last_clone_state_gone(&mut self)
//@ panics: diverge
//@ rule R8 re: `self\s*\.\s*internal\s*\.\s*disallow_future_use\([^()]*\)` => `vx_forbidden()` x*
//@ rule R8 re: `self\s*\.\s*internal\s*\.\s*state\s*\.\s*set\(\s*ObserverState::Disallowed\s*\)` => `vx_diverge()` x*
//@ props: C05 C07 C10 C13
//@ contract:
//@|     requires rc_count(&old(self).sentinel) <= 1, !shared_state_alive(&*old(self).internal),
//@|     ensures false, // [dropping-the-last-clone-after-the-state-marks-the-observer-Disallowed]
//@end
}

} // verus!
fn main() {}
