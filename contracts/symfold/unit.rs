#![feature(allocator_api)]
#![feature(const_destruct)]
// Unit symfold (C18): MergeOnce / MergeOnceWith / SymmetricDiff from incremental-map/src/symmetric_fold.rs
use vstd::prelude::*;
use std::iter::Peekable;
use std::cmp::Ordering;
use std::rc::Rc;
use std::ops::Deref;
use std::collections::{btree_map::Keys, BTreeMap};

verus! {

pub mod seqx {
    use vstd::prelude::*;
    pub open spec fn cons<A>(x: A, s: Seq<A>) -> Seq<A> { seq![x] + s }

    pub broadcast proof fn lemma_cons<A>(x: A, s: Seq<A>)
        ensures
            #![trigger cons(x, s)]
            cons(x, s).len() == s.len() + 1,
            cons(x, s)[0] == x,
            cons(x, s).drop_first() == s,
    {
        assert(cons(x, s).drop_first() =~= s);
    }
}
use seqx::*;
pub mod tstd {
    use vstd::prelude::*;
    use std::collections::{btree_map::Keys, BTreeMap};
    // R8: `m.keys()` is emitted as `vx_btree_keys(m)`.  Trusted (std documentation of BTreeMap::keys: "an iterator
    // over the keys of the map, in sorted order"): the keys come out strictly ascending and are exactly the domain.
    pub uninterp spec fn keys_seq<'a>(m: &'a BTreeMap<u64, u64>) -> Seq<&'a u64>;

    #[verifier::external_body]
    pub fn vx_btree_keys<'a>(m: &'a BTreeMap<u64, u64>) -> (r: Keys<'a, u64, u64>)
        ensures vstd::std_specs::iter::IteratorSpec::remaining(&r) == keys_seq(m),
    { m.keys() }

    pub broadcast axiom fn axiom_btree_keys_sorted<'a>(m: &'a BTreeMap<u64, u64>)
        ensures
            #![trigger keys_seq(m)]
            forall|i: int, j: int| 0 <= i < j < keys_seq(m).len() ==> *keys_seq(m)[i] < *keys_seq(m)[j],
            forall|i: int| 0 <= i < keys_seq(m).len() ==> m@.contains_key(*#[trigger] keys_seq(m)[i]),
            forall|x: u64| m@.contains_key(x) ==> exists|i: int| 0 <= i < keys_seq(m).len() && *#[trigger] keys_seq(m)[i] == x;
}
use tstd::*;
broadcast use {seqx::lemma_cons, tstd::axiom_btree_keys_sorted};

//@include vx_prelude.rs

// ---- trusted: std::iter::Peekable, abstracted by the sequence of items it will still yield ----
#[verifier::external_type_specification]
#[verifier::external_body]
#[verifier::reject_recursive_types(I)]
pub struct ExPeekable<I: Iterator>(Peekable<I>);

pub uninterp spec fn pk<I: Iterator>(p: &Peekable<I>) -> Seq<I::Item>;

pub assume_specification<I: Iterator>[ Peekable::<I>::peek ](p: &mut Peekable<I>) -> (r: Option<&I::Item>)
    ensures
        pk(final(p)) == pk(old(p)),
        pk(old(p)).len() == 0 ==> r is None,
        pk(old(p)).len() > 0 ==> r == Some(&pk(old(p))[0]);

pub assume_specification<I: Iterator>[ <Peekable<I> as Iterator>::next ](p: &mut Peekable<I>) -> (r: Option<I::Item>)
    ensures
        pk(old(p)).len() == 0 ==> r is None && pk(final(p)) == pk(old(p)),
        pk(old(p)).len() > 0 ==> r == Some(pk(old(p))[0]) && pk(final(p)) == pk(old(p)).drop_first();

pub assume_specification<T>[ core::mem::drop ](x: T);

pub assume_specification<T: ?Sized, A: std::alloc::Allocator>[ <Rc<T, A> as Deref>::deref ](rc: &Rc<T, A>) -> (r: &T)
    ensures r == &**rc;


pub assume_specification<T: std::marker::Destruct, U: std::marker::Destruct>[ Option::<T>::zip ](a: Option<T>, b: Option<U>) -> (r: Option<(T, U)>)
    ensures r == (match (a, b) { (Some(x), Some(y)) => Some((x, y)), _ => None });


// R8: `it.peekable()` is emitted as `vx_peekable(it)` (Iterator::peekable is a provided trait method and
// cannot be given an assume_specification).  Trusted: the Peekable yields exactly what the iterator would.
#[verifier::external_body]
pub fn vx_peekable<I: Iterator>(it: I) -> (r: Peekable<I>)
    ensures pk(&r) == vstd::std_specs::iter::IteratorSpec::remaining(&it),
{ it.peekable() }

//@extract struct MergeOnce
//@ file: incremental-map/src/symmetric_fold.rs
//@ name: MergeOnce
//@ contract:
//@| #[verifier::reject_recursive_types(I)]
//@| #[verifier::reject_recursive_types(J)]
//@end

spec fn asc<'a>(s: Seq<&'a u64>) -> bool {
    forall|i: int, j: int| 0 <= i < j < s.len() ==> *s[i] < *s[j]
}

// ---- specification of one merge step and of the whole merge (spec level, from the property text:
//      "pairs entries with equal keys and otherwise yields them in global key order,
//       so no key is skipped or visited twice") ----
spec fn step_takes_a<'a>(a: Seq<&'a u64>, b: Seq<&'a u64>) -> bool {
    a.len() > 0 && (b.len() == 0 || *a[0] <= *b[0])
}
spec fn step_takes_b<'a>(a: Seq<&'a u64>, b: Seq<&'a u64>) -> bool {
    b.len() > 0 && (a.len() == 0 || *b[0] <= *a[0])
}
spec fn step_out<'a>(a: Seq<&'a u64>, b: Seq<&'a u64>) -> &'a u64 {
    if step_takes_a(a, b) { a[0] } else { b[0] }
}
spec fn step_a<'a>(a: Seq<&'a u64>, b: Seq<&'a u64>) -> Seq<&'a u64> {
    if step_takes_a(a, b) { a.drop_first() } else { a }
}
spec fn step_b<'a>(a: Seq<&'a u64>, b: Seq<&'a u64>) -> Seq<&'a u64> {
    if step_takes_b(a, b) { b.drop_first() } else { b }
}
spec fn merged<'a>(a: Seq<&'a u64>, b: Seq<&'a u64>) -> Seq<&'a u64>
    decreases a.len() + b.len(),
{
    if a.len() == 0 && b.len() == 0 {
        Seq::empty()
    } else {
        seq![step_out(a, b)] + merged(step_a(a, b), step_b(a, b))
    }
}

proof fn lemma_asc_drop_first<'a>(s: Seq<&'a u64>)
    requires asc(s), s.len() > 0,
    ensures asc(s.drop_first()),
            forall|i: int| 0 <= i < s.drop_first().len() ==> *s[0] < *#[trigger] s.drop_first()[i],
{
    let t = s.drop_first();
    assert forall|i: int, j: int| 0 <= i < j < t.len() implies *t[i] < *t[j] by {
        assert(t[i] == s[i + 1]);
        assert(t[j] == s[j + 1]);
    }
    assert forall|i: int| 0 <= i < t.len() implies *s[0] < *#[trigger] t[i] by {
        assert(t[i] == s[i + 1]);
    }
}

/// Every element of merged(a,b) comes from a or b and is >= the step output (a lower bound lemma
/// used by the ordering proof).
proof fn lemma_merged_lower_bound<'a>(a: Seq<&'a u64>, b: Seq<&'a u64>, lo: u64)
    requires asc(a), asc(b),
             forall|i: int| 0 <= i < a.len() ==> lo < *#[trigger] a[i],
             forall|i: int| 0 <= i < b.len() ==> lo < *#[trigger] b[i],
    ensures forall|i: int| 0 <= i < merged(a, b).len() ==> lo < *#[trigger] merged(a, b)[i],
    decreases a.len() + b.len(),
{
    if a.len() == 0 && b.len() == 0 {
    } else {
        let a2 = step_a(a, b);
        let b2 = step_b(a, b);
        if step_takes_a(a, b) { lemma_asc_drop_first(a); }
        if step_takes_b(a, b) { lemma_asc_drop_first(b); }
        assert forall|i: int| 0 <= i < a2.len() implies lo < *#[trigger] a2[i] by {
            if step_takes_a(a, b) { assert(a2[i] == a[i + 1]); }
        }
        assert forall|i: int| 0 <= i < b2.len() implies lo < *#[trigger] b2[i] by {
            if step_takes_b(a, b) { assert(b2[i] == b[i + 1]); }
        }
        lemma_merged_lower_bound(a2, b2, lo);
        let m = merged(a, b);
        let rest = merged(a2, b2);
        assert forall|i: int| 0 <= i < m.len() implies lo < *#[trigger] m[i] by {
            if i == 0 { } else { assert(m[i] == rest[i - 1]); }
        }
    }
}

/// C18: the merge output is strictly ascending (so no key is visited twice).
proof fn lemma_merged_ascending<'a>(a: Seq<&'a u64>, b: Seq<&'a u64>)
    requires asc(a), asc(b),
    ensures asc(merged(a, b)),
    decreases a.len() + b.len(),
{
    if a.len() == 0 && b.len() == 0 {
    } else {
        let o = step_out(a, b);
        let a2 = step_a(a, b);
        let b2 = step_b(a, b);
        if step_takes_a(a, b) { lemma_asc_drop_first(a); }
        if step_takes_b(a, b) { lemma_asc_drop_first(b); }
        lemma_merged_ascending(a2, b2);
        assert forall|i: int| 0 <= i < a2.len() implies *o < *#[trigger] a2[i] by {
            if step_takes_a(a, b) { assert(a2[i] == a[i + 1]); } else { }
        }
        assert forall|i: int| 0 <= i < b2.len() implies *o < *#[trigger] b2[i] by {
            if step_takes_b(a, b) { assert(b2[i] == b[i + 1]); } else { }
        }
        lemma_merged_lower_bound(a2, b2, *o);
        let m = merged(a, b);
        let rest = merged(a2, b2);
        assert forall|i: int, j: int| 0 <= i < j < m.len() implies *m[i] < *m[j] by {
            assert(m[j] == rest[j - 1]);
            if i == 0 { } else { assert(m[i] == rest[i - 1]); }
        }
    }
}

/// C18: the merge output contains exactly the keys of a and of b (so no key is skipped).
proof fn lemma_merged_contains<'a>(a: Seq<&'a u64>, b: Seq<&'a u64>, x: &'a u64)
    ensures merged(a, b).contains(x) <==> (a.contains(x) || b.contains(x)),
    decreases a.len() + b.len(),
{
    if a.len() == 0 && b.len() == 0 {
        assert(!merged(a, b).contains(x));
    } else {
        let o = step_out(a, b);
        let a2 = step_a(a, b);
        let b2 = step_b(a, b);
        lemma_merged_contains(a2, b2, x);
        let m = merged(a, b);
        let rest = merged(a2, b2);
        assert(m =~= seq![o] + rest);
        // m.contains(x) <==> x == o || rest.contains(x)
        if m.contains(x) {
            let i = choose|i: int| 0 <= i < m.len() && m[i] == x;
            if i > 0 { assert(rest[i - 1] == x); }
        }
        if rest.contains(x) {
            let i = choose|i: int| 0 <= i < rest.len() && rest[i] == x;
            assert(m[i + 1] == x);
        }
        if x == o { assert(m[0] == x); }
        // a.contains(x) <==> (takes_a && x == a[0]) || a2.contains(x)
        if a.contains(x) {
            let i = choose|i: int| 0 <= i < a.len() && a[i] == x;
            if step_takes_a(a, b) { if i > 0 { assert(a2[i - 1] == x); } }
        }
        if a2.contains(x) {
            let i = choose|i: int| 0 <= i < a2.len() && a2[i] == x;
            if step_takes_a(a, b) { assert(a[i + 1] == x); }
        }
        if b.contains(x) {
            let i = choose|i: int| 0 <= i < b.len() && b[i] == x;
            if step_takes_b(a, b) { if i > 0 { assert(b2[i - 1] == x); } }
        }
        if b2.contains(x) {
            let i = choose|i: int| 0 <= i < b2.len() && b2[i] == x;
            if step_takes_b(a, b) { assert(b[i + 1] == x); }
        }
        if step_takes_a(a, b) { assert(a[0] == o); }
        else { assert(b[0] == o); }
    }
}

impl<'a, I: Iterator<Item = &'a u64>, J: Iterator<Item = &'a u64>> MergeOnce<I, J> {
    spec fn va(&self) -> Seq<&'a u64> { pk(&self.a) }
    spec fn vb(&self) -> Seq<&'a u64> { pk(&self.b) }
    spec fn inv(&self) -> bool {
        &&& asc(self.va())
        &&& asc(self.vb())
        &&& (self.fused == Some(true) ==> self.vb().len() == 0)
        &&& (self.fused == Some(false) ==> self.va().len() == 0)
    }

//@extract fn MergeOnce::new
//@ file: incremental-map/src/symmetric_fold.rs
//@ impl: impl<I, J> MergeOnce<I, J>
//@ name: new
//@ as: fn new(a: I, b: J) -> (r: Self)
//@ rule R8: `a.peekable()` => `vx_peekable(a)` x1
//@ rule R8: `b.peekable()` => `vx_peekable(b)` x1
//@ props: C18
//@ contract:
//@|     ensures
//@|         r.fused is None, // [starts-unfused]
//@|         r.va() == vstd::std_specs::iter::IteratorSpec::remaining(&a), // [left-stream-is-a]
//@|         r.vb() == vstd::std_specs::iter::IteratorSpec::remaining(&b), // [right-stream-is-b]
//@end

//@extract fn MergeOnce::next
//@ file: incremental-map/src/symmetric_fold.rs
//@ impl: impl<I, J> Iterator for MergeOnce<I, J>
//@ name: next
//@ as: fn next(&mut self) -> (r: Option<&'a u64>)
//@ props: C18
//@ contract:
//@|     requires old(self).inv(),
//@|     ensures
//@|         final(self).inv(), // [inv-preserved]
//@|         (old(self).va().len() == 0 && old(self).vb().len() == 0) <==> r is None, // [none-iff-both-empty]
//@|         r is None ==> final(self).va() == old(self).va() && final(self).vb() == old(self).vb(), // [none-leaves-inputs]
//@|         r is Some ==> r == Some(step_out(old(self).va(), old(self).vb())), // [yields-least-head]
//@|         r is Some ==> final(self).va() == step_a(old(self).va(), old(self).vb()), // [consumes-left-iff-least-or-equal]
//@|         r is Some ==> final(self).vb() == step_b(old(self).va(), old(self).vb()), // [consumes-right-iff-least-or-equal]
//@|         r is Some ==> merged(old(self).va(), old(self).vb()) == cons(r.unwrap(), merged(final(self).va(), final(self).vb())), // [merge-unfolds]
//@|         r is None ==> merged(old(self).va(), old(self).vb()) == Seq::<&'a u64>::empty(), // [merge-exhausted]
//@end
}


//@extract enum DiffElement
//@ file: incremental-map/src/symmetric_fold.rs
//@ name: DiffElement
//@end

//@extract struct SymmetricDiff
//@ file: incremental-map/src/symmetric_fold.rs
//@ name: SymmetricDiff
//@ rule R4: `BTreeMap<K, V>` => `BTreeMap<u64, u64>` x2
//@ rule R4: `Keys<'a, K, V>` => `Keys<'a, u64, u64>` x2
//@ rule R4: `SymmetricDiff<'a, K: 'a, V: 'a>` => `SymmetricDiff<'a>` x1
//@end


// ---- specification of the symmetric difference stream (from the property text: "visits exactly the
//      keys that are present in only one map (as Left/Right with that map's value) or present in both
//      with unequal values (as Unequal(old, new)), each exactly once and in ascending key order") ----
spec fn present_equal(m1: Map<u64, u64>, m2: Map<u64, u64>, k: u64) -> bool {
    m1.contains_key(k) && m2.contains_key(k) && m1[k] == m2[k]
}

spec fn tag_of<'a>(m1: Map<u64, u64>, m2: Map<u64, u64>, k: u64) -> DiffElement<&'a u64> {
    if m1.contains_key(k) && m2.contains_key(k) {
        DiffElement::Unequal(&m1[k], &m2[k])
    } else if m1.contains_key(k) {
        DiffElement::Left(&m1[k])
    } else {
        DiffElement::Right(&m2[k])
    }
}

spec fn diff_stream<'a>(rem: Seq<&'a u64>, m1: Map<u64, u64>, m2: Map<u64, u64>) -> Seq<(&'a u64, DiffElement<&'a u64>)>
    decreases rem.len(),
{
    if rem.len() == 0 {
        Seq::empty()
    } else {
        let k = rem[0];
        let rest = diff_stream(rem.drop_first(), m1, m2);
        if present_equal(m1, m2, *k) { rest } else { cons((k, tag_of(m1, m2, *k)), rest) }
    }
}


impl<'a> SymmetricDiff<'a> {
    spec fn rem(&self) -> Seq<&'a u64> { merged(self.keys.va(), self.keys.vb()) }
    spec fn inv(&self) -> bool {
        &&& self.keys.inv()
        &&& forall|i: int| 0 <= i < self.keys.va().len() ==> self.self_@.contains_key(*#[trigger] self.keys.va()[i])
        &&& forall|i: int| 0 <= i < self.keys.vb().len() ==> self.other@.contains_key(*#[trigger] self.keys.vb()[i])
    }

//@extract fn SymmetricDiff::next
//@ file: incremental-map/src/symmetric_fold.rs
//@ impl: impl<'a, K: 'a, V: 'a> Iterator for SymmetricDiff<'a, K, V>
//@ name: next
//@ as: fn next(&mut self) -> (r: Option<(&'a u64, DiffElement<&'a u64>)>)
//@ props: C18
//@ contract:
//@|     requires old(self).inv(),
//@|     ensures
//@|         final(self).inv(), // [inv-preserved]
//@|         final(self).self_ == old(self).self_ && final(self).other == old(self).other, // [maps-unchanged]
//@|         r is None ==> diff_stream(old(self).rem(), old(self).self_@, old(self).other@) == Seq::<(&'a u64, DiffElement<&'a u64>)>::empty(), // [none-only-when-no-remaining-key-differs]
//@|         r is Some ==> diff_stream(old(self).rem(), old(self).self_@, old(self).other@) == cons(r.unwrap(), diff_stream(final(self).rem(), old(self).self_@, old(self).other@)), // [yields-first-differing-key-with-its-tag]
//@ loop 0:
//@|     invariant_except_break
//@|         diff_stream(self.rem(), self.self_@, self.other@) == diff_stream(old(self).rem(), self.self_@, self.other@),
//@|     invariant
//@|         self.inv(),
//@|         self.self_ == old(self).self_ && self.other == old(self).other,
//@|     ensures
//@|         diff_stream(old(self).rem(), self.self_@, self.other@) == cons((key, elem), diff_stream(self.rem(), self.self_@, self.other@)),
//@|     decreases self.keys.va().len() + self.keys.vb().len(),
//@end
}



// ---- MergeOnceWith: the ordered merge of two keyed streams used by incr_merge --------------------------
//@extract enum MergeElement
//@ file: incremental-map/src/symmetric_fold.rs
//@ name: MergeElement
//@end

//@extract struct MergeOnceWith
//@ file: incremental-map/src/symmetric_fold.rs
//@ name: MergeOnceWith
//@ contract:
//@| #[verifier::reject_recursive_types(I)]
//@| #[verifier::reject_recursive_types(J)]
//@| #[verifier::reject_recursive_types(F)]
//@end

pub type KV<'a> = (&'a u64, DiffElement<&'a u64>);

spec fn kasc<'a>(s: Seq<KV<'a>>) -> bool {
    forall|i: int, j: int| 0 <= i < j < s.len() ==> *s[i].0 < *s[j].0
}

/// the comparator agrees with the key order (what merge_shared_impl's closure must provide)
spec fn cmp_by_key<'a, F: Fn(&KV<'a>, &KV<'a>) -> Ordering>(f: F) -> bool {
    &&& forall|a: &KV<'a>, b: &KV<'a>| call_requires(f, (a, b))
    &&& forall|a: &KV<'a>, b: &KV<'a>, o: Ordering| call_ensures(f, (a, b), o) ==> (
            (o is Less <==> *a.0 < *b.0) && (o is Equal <==> *a.0 == *b.0) && (o is Greater <==> *a.0 > *b.0))
}

impl<'a, I: Iterator<Item = KV<'a>>, J: Iterator<Item = KV<'a>>, F: Fn(&KV<'a>, &KV<'a>) -> Ordering> MergeOnceWith<I, J, F> {
    spec fn va(&self) -> Seq<KV<'a>> { pk(&self.a) }
    spec fn vb(&self) -> Seq<KV<'a>> { pk(&self.b) }
    spec fn inv(&self) -> bool {
        &&& kasc(self.va())
        &&& kasc(self.vb())
        &&& cmp_by_key(self.fcmp)
        &&& (self.fused == Some(true) ==> self.vb().len() == 0)
        &&& (self.fused == Some(false) ==> self.va().len() == 0)
    }
    spec fn takes_a(a: Seq<KV<'a>>, b: Seq<KV<'a>>) -> bool { a.len() > 0 && (b.len() == 0 || *a[0].0 <= *b[0].0) }
    spec fn takes_b(a: Seq<KV<'a>>, b: Seq<KV<'a>>) -> bool { b.len() > 0 && (a.len() == 0 || *b[0].0 <= *a[0].0) }

//@extract fn MergeOnceWith::new
//@ file: incremental-map/src/symmetric_fold.rs
//@ impl: impl<I: Iterator, J: Iterator, FCmp: Fn(&I::Item, &J::Item) -> Ordering> MergeOnceWith<I, J, FCmp>
//@ name: new
//@ as: fn new(a: I, b: J, fcmp: F) -> (r: Self)
//@ rule R8: `a.peekable()` => `vx_peekable(a)` x1
//@ rule R8: `b.peekable()` => `vx_peekable(b)` x1
//@ props: C18
//@ contract:
//@|     ensures
//@|         r.fused is None && r.fcmp == fcmp, // [starts-unfused-with-the-given-comparator]
//@|         r.va() == vstd::std_specs::iter::IteratorSpec::remaining(&a), // [left-stream-is-a]
//@|         r.vb() == vstd::std_specs::iter::IteratorSpec::remaining(&b), // [right-stream-is-b]
//@end

//@extract fn MergeOnceWith::next
//@ file: incremental-map/src/symmetric_fold.rs
//@ impl: impl<I, J, FCmp> Iterator for MergeOnceWith<I, J, FCmp>
//@ name: next
//@ as: fn next(&mut self) -> (r: Option<MergeElement<KV<'a>, KV<'a>>>)
//@ props: C18
//@ contract:
//@|     requires old(self).inv(),
//@|     ensures
//@|         final(self).inv(), // [inv-preserved]
//@|         (old(self).va().len() == 0 && old(self).vb().len() == 0) <==> r is None, // [none-iff-both-exhausted]
//@|         final(self).va() == (if Self::takes_a(old(self).va(), old(self).vb()) { old(self).va().drop_first() } else { old(self).va() }), // [left-advances-iff-its-key-is-least-or-equal]
//@|         final(self).vb() == (if Self::takes_b(old(self).va(), old(self).vb()) { old(self).vb().drop_first() } else { old(self).vb() }), // [right-advances-iff-its-key-is-least-or-equal]
//@end
}


// ---- the comparator closures handed to MergeOnceWith::new in the two merge_shared_impl copies -------------
// (R8': a closure literal is emitted as a named fn: parameters vx_p0.. bound to the closure's own patterns, same body)
//@extract closure btree_map::merge_shared_impl::comparator
//@ file: incremental-map/src/btree_map.rs
//@ name: merge_shared_impl
//@ anchor: `MergeOnceWith::new\(\s*left_diff\s*,\s*right_diff\s*,\s*(\|[^;]*?)\)\s*;`
//@ params: `(k, _), (k2, _)`
//@ as: fn btree_merge_cmp<'a>(vx_p0: &KV<'a>, vx_p1: &KV<'a>) -> (r: Ordering)
//@ props: C18
//@ contract:
//@|     ensures
//@|         (r is Less <==> *vx_p0.0 < *vx_p1.0) && (r is Equal <==> *vx_p0.0 == *vx_p1.0) && (r is Greater <==> *vx_p0.0 > *vx_p1.0), // [merge-comparator-orders-left-key-against-right-key]
//@end

//@extract closure im_rc::merge_shared_impl::comparator
//@ file: incremental-map/src/im_rc.rs
//@ name: merge_shared_impl
//@ anchor: `MergeOnceWith::new\(\s*left_diff\s*,\s*right_diff\s*,\s*(\|[^;]*?)\)\s*;`
//@ params: `(k, _), (k2, _)`
//@ as: fn ordmap_merge_cmp<'a>(vx_p0: &KV<'a>, vx_p1: &KV<'a>) -> (r: Ordering)
//@ props: C18
//@ contract:
//@|     ensures
//@|         (r is Less <==> *vx_p0.0 < *vx_p1.0) && (r is Equal <==> *vx_p0.0 == *vx_p1.0) && (r is Greater <==> *vx_p0.0 > *vx_p1.0), // [merge-comparator-orders-left-key-against-right-key]
//@end

/// the two comparators satisfy the precondition of MergeOnceWith::next (`cmp_by_key`)
proof fn lemma_merge_comparators_order_by_key<'a>()
    ensures
        forall|a: &KV<'a>, b: &KV<'a>, o: Ordering| call_ensures(btree_merge_cmp, (a, b), o) ==> ((o is Less <==> *a.0 < *b.0) && (o is Equal <==> *a.0 == *b.0) && (o is Greater <==> *a.0 > *b.0)),
        forall|a: &KV<'a>, b: &KV<'a>, o: Ordering| call_ensures(ordmap_merge_cmp, (a, b), o) ==> ((o is Less <==> *a.0 < *b.0) && (o is Equal <==> *a.0 == *b.0) && (o is Greater <==> *a.0 > *b.0)),
        forall|a: &KV<'a>, b: &KV<'a>| call_requires(btree_merge_cmp, (a, b)) && call_requires(ordmap_merge_cmp, (a, b)),
{ }

// ---- the map-level entry points -------------------------------------------------------------------------

// Trusted model of Iterator::fold for the (R3: inherent) iterator SymmetricDiff: `folded(items, init, f, r)` is
// left uninterpreted and only ever introduced here, for exactly the stream `next` yields.
pub uninterp spec fn folded<'a, R, F>(items: Seq<(&'a u64, DiffElement<&'a u64>)>, init: R, f: F, r: R) -> bool;

impl<'a> SymmetricDiff<'a> {
    #[verifier::external_body]
    fn vx_fold<R, F: FnMut(R, (&'a u64, DiffElement<&'a u64>)) -> R>(self, init: R, f: F) -> (r: R)
        requires self.inv(),
        ensures folded(diff_stream(self.rem(), self.self_@, self.other@), init, f, r),
    { unimplemented!() }
}

//@extract fn BTreeMap::symmetric_diff
//@ file: incremental-map/src/symmetric_fold.rs
//@ impl: impl<'a, K: Ord + 'a, V: PartialEq + 'a> SymmetricDiffMap<'a, K, V> for BTreeMap<K, V>
//@ name: symmetric_diff
//@ as: fn btree_symmetric_diff<'a>(this: &'a BTreeMap<u64, u64>, other: &'a BTreeMap<u64, u64>) -> (r: SymmetricDiff<'a>)
//@ rule R3 re: `\bself\.keys\(\)` => `vx_btree_keys(this)` x1
//@ rule R8 re: `\bother\.keys\(\)` => `vx_btree_keys(other)` x1
//@ rule R3 re: `\bself\b` => `this` x*
//@ props: C18
//@ contract:
//@|     ensures
//@|         r.inv(), // [iterator-invariant-established]
//@|         r.self_ == this && r.other == other, // [left-is-self-right-is-other]
//@|         r.keys.va() == keys_seq(this) && r.keys.vb() == keys_seq(other), // [key-streams-are-the-two-key-sets]
//@end

//@extract fn BTreeMap::symmetric_fold
//@ file: incremental-map/src/symmetric_fold.rs
//@ impl: impl<K: Ord, V: PartialEq> SymmetricFoldMap<K, V> for BTreeMap<K, V>
//@ name: symmetric_fold
//@ as: fn btree_symmetric_fold<'a, R, F: FnMut(R, (&'a u64, DiffElement<&'a u64>)) -> R>(this: &'a BTreeMap<u64, u64>, other: &'a BTreeMap<u64, u64>, init: R, f: F) -> (r: R)
//@ rule R3: `self.symmetric_diff(other)` => `btree_symmetric_diff(this, other)` x1
//@ rule R8: `.fold(init, f)` => `.vx_fold(init, f)` x1
//@ rule R3 re: `\bself\b` => `this` x*
//@ props: C18
//@ contract:
//@|     ensures
//@|         folded(diff_stream(merged(keys_seq(this), keys_seq(other)), this@, other@), init, f, r), // [folds-f-over-exactly-the-symmetric-difference-of-self-and-other]
//@end



//@extract fn Rc<BTreeMap>::symmetric_fold
//@ file: incremental-map/src/symmetric_fold.rs
//@ impl: impl<K: Ord, V: PartialEq> SymmetricFoldMap<K, V> for Rc<BTreeMap<K, V>>
//@ name: symmetric_fold
//@ as: fn rc_btree_symmetric_fold<'a, R, F: FnMut(R, (&'a u64, DiffElement<&'a u64>)) -> R>(this: &'a Rc<BTreeMap<u64, u64>>, other: &'a Rc<BTreeMap<u64, u64>>, init: R, f: F) -> (r: R)
//@ rule R3: `self.deref()` => `this.deref()` x1
//@ rule R3: `self_target.symmetric_diff(other_target)` => `btree_symmetric_diff(self_target, other_target)` x1
//@ rule R8: `.fold(init, f)` => `.vx_fold(init, f)` x1
//@ rule R3 re: `\bself\b` => `this` x*
//@ props: C18
//@ contract:
//@|     ensures
//@|         folded(diff_stream(merged(keys_seq(&**this), keys_seq(&**other)), (**this)@, (**other)@), init, f, r), // [folds-f-over-exactly-the-symmetric-difference-of-self-and-other]
//@end

// ---- OrdMap: im_rc's own diff enumerates; only the adapter that re-tags its items is under contract ----
/// trusted mirror of im_rc::ordmap::DiffItem (im-rc 15.1.0, src/ord/map.rs)
pub enum DiffItem<'a, K, V> {
    Add(&'a K, &'a V),
    Update { old: (&'a K, &'a V), new: (&'a K, &'a V) },
    Remove(&'a K, &'a V),
}

//@extract fn DiffElement::from_diff_item
//@ file: incremental-map/src/im_rc.rs
//@ impl: impl<'a, V> DiffElement<&'a V>
//@ name: from_diff_item
//@ as: fn from_diff_item<'a>(value: DiffItem<'a, u64, u64>) -> (r: (&'a u64, DiffElement<&'a u64>))
//@ rule R3 re: `\bSelf::` => `DiffElement::` x3
//@ props: C18
//@ contract:
//@|     ensures
//@|         (value matches DiffItem::Add(k, v) ==> r == (k, DiffElement::Right(v))), // [added-to-self-means-only-in-other-Right]
//@|         (value matches DiffItem::Remove(k, v) ==> r == (k, DiffElement::Left(v))), // [removed-from-self-means-only-in-self-Left]
//@|         (value matches DiffItem::Update { old, new } ==> r == (old.0, DiffElement::Unequal(old.1, new.1))), // [update-is-Unequal-old-then-new]
//@end

// ---- C18, composed: what the fold visits, stated over the two maps only --------------------------------
spec fn keys_of<'a>(s: Seq<&'a u64>, m: Map<u64, u64>) -> bool {
    &&& asc(s)
    &&& forall|i: int| 0 <= i < s.len() ==> m.contains_key(*#[trigger] s[i])
    &&& forall|x: u64| m.contains_key(x) ==> exists|i: int| 0 <= i < s.len() && *#[trigger] s[i] == x
}

spec fn visits<'a>(d: Seq<(&'a u64, DiffElement<&'a u64>)>, x: u64) -> bool {
    exists|i: int| 0 <= i < d.len() && *(#[trigger] d[i]).0 == x
}

spec fn has_key<'a>(s: Seq<&'a u64>, x: u64) -> bool {
    exists|i: int| 0 <= i < s.len() && *#[trigger] s[i] == x
}

/// order and tags of the diff stream
proof fn lemma_diff_stream_order<'a>(rem: Seq<&'a u64>, m1: Map<u64, u64>, m2: Map<u64, u64>, lo: int)
    requires asc(rem), forall|i: int| 0 <= i < rem.len() ==> lo < *#[trigger] rem[i],
    ensures
        ({
            let d = diff_stream(rem, m1, m2);
            &&& forall|i: int, j: int| 0 <= i < j < d.len() ==> *(#[trigger] d[i]).0 < *(#[trigger] d[j]).0
            &&& forall|i: int| 0 <= i < d.len() ==> lo < *(#[trigger] d[i]).0
            &&& forall|i: int| 0 <= i < d.len() ==> (#[trigger] d[i]).1 == tag_of::<'a>(m1, m2, *d[i].0)
        }),
    decreases rem.len(),
{
    let d = diff_stream(rem, m1, m2);
    if rem.len() == 0 {
    } else {
        let k = rem[0];
        let tail = rem.drop_first();
        lemma_asc_drop_first(rem);
        assert forall|i: int| 0 <= i < tail.len() implies (*k as int) < *#[trigger] tail[i] by { }
        lemma_diff_stream_order(tail, m1, m2, *k as int);
        let rest = diff_stream(tail, m1, m2);
        assert forall|i: int| 0 <= i < rest.len() implies lo < *(#[trigger] rest[i]).0 by { }
        if present_equal(m1, m2, *k) {
            assert(d == rest);
        } else {
            let e = (k, tag_of::<'a>(m1, m2, *k));
            assert(d == cons(e, rest));
            assert forall|i: int, j: int| 0 <= i < j < d.len() implies *(#[trigger] d[i]).0 < *(#[trigger] d[j]).0 by {
                assert(d[j] == rest[j - 1]);
                if i > 0 { assert(d[i] == rest[i - 1]); }
            }
            assert forall|i: int| 0 <= i < d.len() implies lo < *(#[trigger] d[i]).0 by {
                if i > 0 { assert(d[i] == rest[i - 1]); }
            }
            assert forall|i: int| 0 <= i < d.len() implies (#[trigger] d[i]).1 == tag_of::<'a>(m1, m2, *d[i].0) by {
                if i > 0 { assert(d[i] == rest[i - 1]); }
            }
        }
    }
}

/// which keys the diff stream visits: exactly the remaining keys that are not (present in both with equal values)
proof fn lemma_diff_stream_visits<'a>(rem: Seq<&'a u64>, m1: Map<u64, u64>, m2: Map<u64, u64>, x: u64)
    ensures visits(diff_stream(rem, m1, m2), x) <==> (has_key(rem, x) && !present_equal(m1, m2, x)),
    decreases rem.len(),
{
    let d = diff_stream(rem, m1, m2);
    if rem.len() == 0 {
    } else {
        let k = rem[0];
        let tail = rem.drop_first();
        lemma_diff_stream_visits(tail, m1, m2, x);
        let rest = diff_stream(tail, m1, m2);
        // has_key(rem, x) <==> *k == x || has_key(tail, x)
        if has_key(rem, x) {
            let i = choose|i: int| 0 <= i < rem.len() && *#[trigger] rem[i] == x;
            if i > 0 { assert(*tail[i - 1] == x); }
        }
        if has_key(tail, x) {
            let i = choose|i: int| 0 <= i < tail.len() && *#[trigger] tail[i] == x;
            assert(*rem[i + 1] == x);
        }
        if *k == x { assert(*rem[0] == x); }
        if present_equal(m1, m2, *k) {
            assert(d == rest);
        } else {
            let e = (k, tag_of::<'a>(m1, m2, *k));
            assert(d == cons(e, rest));
            // visits(d, x) <==> *k == x || visits(rest, x)
            if visits(d, x) {
                let i = choose|i: int| 0 <= i < d.len() && *(#[trigger] d[i]).0 == x;
                if i > 0 { assert(d[i] == rest[i - 1]); assert(*rest[i - 1].0 == x); }
            }
            if visits(rest, x) {
                let j = choose|j: int| 0 <= j < rest.len() && *(#[trigger] rest[j]).0 == x;
                assert(d[j + 1] == rest[j]);
                assert(*d[j + 1].0 == x);
            }
            if *k == x { assert(*d[0].0 == x); }
        }
    }
}

/// C18 for BTreeMap / Rc<BTreeMap>: what `symmetric_fold` folds over (see contract of btree_symmetric_fold)
/// is, for any two maps: ascending in the key, visits a key iff it is in exactly one map or in both with
/// unequal values, each such key once, tagged Left / Right / Unequal(self's, other's); nothing when equal.
#[verifier::rlimit(80)]
#[verifier::spinoff_prover]
proof fn lemma_symmetric_diff_characterisation<'a>(ka: Seq<&'a u64>, kb: Seq<&'a u64>, m1: Map<u64, u64>, m2: Map<u64, u64>)
    requires keys_of(ka, m1), keys_of(kb, m2),
    ensures
        ({
            let d = diff_stream(merged(ka, kb), m1, m2);
            &&& forall|i: int, j: int| 0 <= i < j < d.len() ==> *(#[trigger] d[i]).0 < *(#[trigger] d[j]).0
            &&& forall|i: int| 0 <= i < d.len() ==> (#[trigger] d[i]).1 == tag_of::<'a>(m1, m2, *d[i].0)
            &&& forall|x: u64| visits(d, x) <==> ((m1.contains_key(x) || m2.contains_key(x)) && !present_equal(m1, m2, x))
            &&& (m1 == m2 ==> d.len() == 0)
        }),
{
    let rem = merged(ka, kb);
    lemma_merged_ascending(ka, kb);
    assert forall|i: int| 0 <= i < rem.len() implies -1 < *#[trigger] rem[i] by { }
    lemma_diff_stream_order(rem, m1, m2, -1);
    let d = diff_stream(rem, m1, m2);
    assert forall|x: u64| visits(d, x) <==> (has_key(rem, x) && !present_equal(m1, m2, x)) by {
        lemma_diff_stream_visits(rem, m1, m2, x);
    }
    assert forall|x: u64| has_key(rem, x) <==> (m1.contains_key(x) || m2.contains_key(x)) by {
        if has_key(rem, x) {
            let i = choose|i: int| 0 <= i < rem.len() && *#[trigger] rem[i] == x;
            lemma_merged_contains(ka, kb, rem[i]);
            assert(rem.contains(rem[i]));
            if ka.contains(rem[i]) {
                let j = choose|j: int| 0 <= j < ka.len() && ka[j] == rem[i];
                assert(m1.contains_key(*ka[j]));
            } else {
                let j = choose|j: int| 0 <= j < kb.len() && kb[j] == rem[i];
                assert(m2.contains_key(*kb[j]));
            }
        }
        if m1.contains_key(x) {
            let j = choose|j: int| 0 <= j < ka.len() && *#[trigger] ka[j] == x;
            lemma_merged_contains(ka, kb, ka[j]);
            assert(ka.contains(ka[j]));
            let i = choose|i: int| 0 <= i < rem.len() && rem[i] == ka[j];
            assert(*rem[i] == x);
        }
        if m2.contains_key(x) {
            let j = choose|j: int| 0 <= j < kb.len() && *#[trigger] kb[j] == x;
            lemma_merged_contains(ka, kb, kb[j]);
            assert(kb.contains(kb[j]));
            let i = choose|i: int| 0 <= i < rem.len() && rem[i] == kb[j];
            assert(*rem[i] == x);
        }
    }
    if m1 == m2 {
        if d.len() > 0 {
            assert(visits(d, *d[0].0));
            assert(false);
        }
    }
}

} // verus!
fn main() {}
