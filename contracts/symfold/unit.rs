// Unit symfold (C18): MergeOnce / MergeOnceWith / SymmetricDiff from incremental-map/src/symmetric_fold.rs
use vstd::prelude::*;
use std::iter::Peekable;

verus! {

//@include vx_prelude.rs

// ---- trusted: std::iter::Peekable, abstracted by the sequence of items it will still yield ----
#[verifier::external_type_specification]
#[verifier::external_body]
#[verifier::reject_recursive_types(I)]
pub struct ExPeekable<I: Iterator>(Peekable<I>);

pub uninterp spec fn pk<I: Iterator>(p: &Peekable<I>) -> Seq<I::Item>;

pub assume_specification<I: Iterator>[ Peekable::<I>::peek ](p: &mut Peekable<I>) -> (r: Option<&I::Item>)
    ensures
        pk(final(p)) == pk(old(p)),
        pk(old(p)).len() == 0 ==> r is None,
        pk(old(p)).len() > 0 ==> r == Some(&pk(old(p))[0]);

pub assume_specification<I: Iterator>[ <Peekable<I> as Iterator>::next ](p: &mut Peekable<I>) -> (r: Option<I::Item>)
    ensures
        pk(old(p)).len() == 0 ==> r is None && pk(final(p)) == pk(old(p)),
        pk(old(p)).len() > 0 ==> r == Some(pk(old(p))[0]) && pk(final(p)) == pk(old(p)).drop_first();

pub assume_specification<T>[ core::mem::drop ](x: T);

//@extract struct MergeOnce
//@ file: incremental-map/src/symmetric_fold.rs
//@ name: MergeOnce
//@ contract:
//@| #[verifier::reject_recursive_types(I)]
//@| #[verifier::reject_recursive_types(J)]
//@end

pub open spec fn asc(s: Seq<u64>) -> bool {
    forall|i: int, j: int| 0 <= i < j < s.len() ==> s[i] < s[j]
}

// ---- specification of one merge step and of the whole merge (spec level, from the property text:
//      "pairs entries with equal keys and otherwise yields them in global key order,
//       so no key is skipped or visited twice") ----
pub open spec fn step_takes_a(a: Seq<u64>, b: Seq<u64>) -> bool {
    a.len() > 0 && (b.len() == 0 || a[0] <= b[0])
}
pub open spec fn step_takes_b(a: Seq<u64>, b: Seq<u64>) -> bool {
    b.len() > 0 && (a.len() == 0 || b[0] <= a[0])
}
pub open spec fn step_out(a: Seq<u64>, b: Seq<u64>) -> u64 {
    if step_takes_a(a, b) { a[0] } else { b[0] }
}
pub open spec fn step_a(a: Seq<u64>, b: Seq<u64>) -> Seq<u64> {
    if step_takes_a(a, b) { a.drop_first() } else { a }
}
pub open spec fn step_b(a: Seq<u64>, b: Seq<u64>) -> Seq<u64> {
    if step_takes_b(a, b) { b.drop_first() } else { b }
}
pub open spec fn merged(a: Seq<u64>, b: Seq<u64>) -> Seq<u64>
    decreases a.len() + b.len(),
{
    if a.len() == 0 && b.len() == 0 {
        Seq::empty()
    } else {
        seq![step_out(a, b)] + merged(step_a(a, b), step_b(a, b))
    }
}

pub proof fn lemma_asc_drop_first(s: Seq<u64>)
    requires asc(s), s.len() > 0,
    ensures asc(s.drop_first()),
            forall|i: int| 0 <= i < s.drop_first().len() ==> s[0] < #[trigger] s.drop_first()[i],
{
    let t = s.drop_first();
    assert forall|i: int, j: int| 0 <= i < j < t.len() implies t[i] < t[j] by {
        assert(t[i] == s[i + 1]);
        assert(t[j] == s[j + 1]);
    }
    assert forall|i: int| 0 <= i < t.len() implies s[0] < #[trigger] t[i] by {
        assert(t[i] == s[i + 1]);
    }
}

/// Every element of merged(a,b) comes from a or b and is >= the step output (a lower bound lemma
/// used by the ordering proof).
pub proof fn lemma_merged_lower_bound(a: Seq<u64>, b: Seq<u64>, lo: u64)
    requires asc(a), asc(b),
             forall|i: int| 0 <= i < a.len() ==> lo < #[trigger] a[i],
             forall|i: int| 0 <= i < b.len() ==> lo < #[trigger] b[i],
    ensures forall|i: int| 0 <= i < merged(a, b).len() ==> lo < #[trigger] merged(a, b)[i],
    decreases a.len() + b.len(),
{
    if a.len() == 0 && b.len() == 0 {
    } else {
        let a2 = step_a(a, b);
        let b2 = step_b(a, b);
        if step_takes_a(a, b) { lemma_asc_drop_first(a); }
        if step_takes_b(a, b) { lemma_asc_drop_first(b); }
        assert forall|i: int| 0 <= i < a2.len() implies lo < #[trigger] a2[i] by {
            if step_takes_a(a, b) { assert(a2[i] == a[i + 1]); }
        }
        assert forall|i: int| 0 <= i < b2.len() implies lo < #[trigger] b2[i] by {
            if step_takes_b(a, b) { assert(b2[i] == b[i + 1]); }
        }
        lemma_merged_lower_bound(a2, b2, lo);
        let m = merged(a, b);
        let rest = merged(a2, b2);
        assert forall|i: int| 0 <= i < m.len() implies lo < #[trigger] m[i] by {
            if i == 0 { } else { assert(m[i] == rest[i - 1]); }
        }
    }
}

/// C18: the merge output is strictly ascending (so no key is visited twice).
pub proof fn lemma_merged_ascending(a: Seq<u64>, b: Seq<u64>)
    requires asc(a), asc(b),
    ensures asc(merged(a, b)),
    decreases a.len() + b.len(),
{
    if a.len() == 0 && b.len() == 0 {
    } else {
        let o = step_out(a, b);
        let a2 = step_a(a, b);
        let b2 = step_b(a, b);
        if step_takes_a(a, b) { lemma_asc_drop_first(a); }
        if step_takes_b(a, b) { lemma_asc_drop_first(b); }
        lemma_merged_ascending(a2, b2);
        assert forall|i: int| 0 <= i < a2.len() implies o < #[trigger] a2[i] by {
            if step_takes_a(a, b) { assert(a2[i] == a[i + 1]); } else { }
        }
        assert forall|i: int| 0 <= i < b2.len() implies o < #[trigger] b2[i] by {
            if step_takes_b(a, b) { assert(b2[i] == b[i + 1]); } else { }
        }
        lemma_merged_lower_bound(a2, b2, o);
        let m = merged(a, b);
        let rest = merged(a2, b2);
        assert forall|i: int, j: int| 0 <= i < j < m.len() implies m[i] < m[j] by {
            assert(m[j] == rest[j - 1]);
            if i == 0 { } else { assert(m[i] == rest[i - 1]); }
        }
    }
}

/// C18: the merge output contains exactly the keys of a and of b (so no key is skipped).
pub proof fn lemma_merged_contains(a: Seq<u64>, b: Seq<u64>, x: u64)
    ensures merged(a, b).contains(x) <==> (a.contains(x) || b.contains(x)),
    decreases a.len() + b.len(),
{
    if a.len() == 0 && b.len() == 0 {
        assert(!merged(a, b).contains(x));
    } else {
        let o = step_out(a, b);
        let a2 = step_a(a, b);
        let b2 = step_b(a, b);
        lemma_merged_contains(a2, b2, x);
        let m = merged(a, b);
        let rest = merged(a2, b2);
        assert(m =~= seq![o] + rest);
        // m.contains(x) <==> x == o || rest.contains(x)
        if m.contains(x) {
            let i = choose|i: int| 0 <= i < m.len() && m[i] == x;
            if i > 0 { assert(rest[i - 1] == x); }
        }
        if rest.contains(x) {
            let i = choose|i: int| 0 <= i < rest.len() && rest[i] == x;
            assert(m[i + 1] == x);
        }
        if x == o { assert(m[0] == x); }
        // a.contains(x) <==> (takes_a && x == a[0]) || a2.contains(x)
        if a.contains(x) {
            let i = choose|i: int| 0 <= i < a.len() && a[i] == x;
            if step_takes_a(a, b) { if i > 0 { assert(a2[i - 1] == x); } }
        }
        if a2.contains(x) {
            let i = choose|i: int| 0 <= i < a2.len() && a2[i] == x;
            if step_takes_a(a, b) { assert(a[i + 1] == x); }
        }
        if b.contains(x) {
            let i = choose|i: int| 0 <= i < b.len() && b[i] == x;
            if step_takes_b(a, b) { if i > 0 { assert(b2[i - 1] == x); } }
        }
        if b2.contains(x) {
            let i = choose|i: int| 0 <= i < b2.len() && b2[i] == x;
            if step_takes_b(a, b) { assert(b[i + 1] == x); }
        }
        if step_takes_a(a, b) { assert(a[0] == o); }
        else { assert(b[0] == o); }
    }
}

impl<I: Iterator<Item = u64>, J: Iterator<Item = u64>> MergeOnce<I, J> {
    spec fn va(&self) -> Seq<u64> { pk(&self.a) }
    spec fn vb(&self) -> Seq<u64> { pk(&self.b) }
    spec fn inv(&self) -> bool {
        &&& asc(self.va())
        &&& asc(self.vb())
        &&& (self.fused == Some(true) ==> self.vb().len() == 0)
        &&& (self.fused == Some(false) ==> self.va().len() == 0)
    }

//@extract fn MergeOnce::new
//@ file: incremental-map/src/symmetric_fold.rs
//@ impl: impl<I, J> MergeOnce<I, J>
//@ name: new
//@ external_body
//@ as: fn new(a: I, b: J) -> (r: Self)
//@ contract:
//@|     ensures r.fused is None,
//@end

//@extract fn MergeOnce::next
//@ file: incremental-map/src/symmetric_fold.rs
//@ impl: impl<I, J> Iterator for MergeOnce<I, J>
//@ name: next
//@ as: fn next(&mut self) -> (r: Option<u64>)
//@ props: C18
//@ contract:
//@|     requires old(self).inv(),
//@|     ensures
//@|         final(self).inv(), // [inv-preserved]
//@|         (old(self).va().len() == 0 && old(self).vb().len() == 0) <==> r is None, // [none-iff-both-empty]
//@|         r is None ==> final(self).va() == old(self).va() && final(self).vb() == old(self).vb(), // [none-leaves-inputs]
//@|         r is Some ==> r == Some(step_out(old(self).va(), old(self).vb())), // [yields-least-head]
//@|         r is Some ==> final(self).va() == step_a(old(self).va(), old(self).vb()), // [consumes-left-iff-least-or-equal]
//@|         r is Some ==> final(self).vb() == step_b(old(self).va(), old(self).vb()), // [consumes-right-iff-least-or-equal]
//@|         r is Some ==> merged(old(self).va(), old(self).vb()) == seq![r.unwrap()] + merged(final(self).va(), final(self).vb()), // [merge-unfolds]
//@|         r is None ==> merged(old(self).va(), old(self).vb()) == Seq::<u64>::empty(), // [merge-exhausted]
//@end
}

} // verus!
fn main() {}
