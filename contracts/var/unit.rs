#![feature(allocator_api)]
// Unit var (C08, parts of C05 / C07 / C13): the write paths of Var (src/var.rs) and State::is_stable.
use vstd::prelude::*;
use std::rc::Rc;
use std::cell::Cell;

verus! {

//@include vx_prelude.rs
//@include std_more.rs
// an Option filtered by a closure is either dropped or unchanged
pub assume_specification<T, P: FnOnce(&T) -> bool>[ Option::<T>::filter ](o: Option<T>, predicate: P) -> (r: Option<T>)
    requires o is Some ==> predicate.requires((&o.unwrap(),)),
    ensures
        o is None ==> r is None,
        o is Some ==> (exists|b: bool| predicate.ensures((&o.unwrap(),), b) && (b ==> r == o) && (!b ==> r is None));

//@extract struct StabilisationNum
//@ file: src/stabilisation_num.rs
//@ name: StabilisationNum
//@ derives: Copy, Clone, PartialEq, Eq
//@ contract:
//@| #[derive(Structural)]
//@end

//@extract enum IncrStatus
//@ file: src/state.rs
//@ name: IncrStatus
//@ derives: Clone, Copy, Eq, PartialEq
//@ contract:
//@| #[derive(Structural)]
//@end

//@extract struct NodeId
//@ file: src/node/id.rs
//@ name: NodeId
//@ derives: Clone, Copy, PartialEq, Eq
//@ contract:
//@| #[derive(Structural)]
//@end

// ---- trusted stand-ins -------------------------------------------------------------------------------
pub assume_specification<T: Default>[ core::mem::take ](dest: &mut T) -> (r: T)
    ensures r == *old(dest);
pub assume_specification<T>[ core::mem::replace ](dest: &mut T, src: T) -> (r: T)
    ensures *final(dest) == src, r == *old(dest);

pub assume_specification<T>[ Option::<T>::replace ](o: &mut Option<T>, v: T) -> (r: Option<T>)
    ensures *final(o) == Some(v), r == *old(o);

#[verifier::external_body]
pub struct Node { _p: u8 }
pub type NodeRef = Rc<Node>;
pub uninterp spec fn node_necessary(n: &Node) -> bool;
pub uninterp spec fn node_in_heap(n: &Node) -> bool;
impl Node {
    #[verifier::external_body]
    pub fn is_necessary(&self) -> (r: bool) ensures r == node_necessary(self) { unimplemented!() }
    #[verifier::external_body]
    pub fn is_in_recompute_heap(&self) -> (r: bool) ensures r == node_in_heap(self) { unimplemented!() }
    #[verifier::external_body]
    pub fn packed(&self) -> (r: NodeRef) ensures *r == *self { unimplemented!() }
}

/// the weak handle of a variable pushed on State::set_during_stabilisation, identified by its node id
#[verifier::external_body]
pub struct WeakVar { _p: u8 }
pub uninterp spec fn weak_var_of(id: NodeId) -> WeakVar;
#[verifier::external_body]
pub fn vx_weak_var(id: NodeId) -> (r: WeakVar) ensures r == weak_var_of(id) { unimplemented!() }

pub struct RecomputeHeap { pub inserted: Ghost<Seq<NodeRef>> }
impl RecomputeHeap {
    /// R8: RecomputeHeap::insert represented by the part of its own debug assertion that does not depend on the
    /// variable's set_at stamp: the node must be necessary and not already queued.
    #[verifier::external_body]
    pub fn insert(&mut self, node: NodeRef)
        requires node_necessary(&*node) && !node_in_heap(&*node),
        ensures final(self).inserted@ == old(self).inserted@.push(node),
    { unimplemented!() }
}

/// the engine state as far as variables touch it (R5 on the `t` handle: Cells / RefCells erased)
pub struct State {
    pub status: IncrStatus,
    pub stabilisation_num: StabilisationNum,
    pub num_var_sets: usize,
    pub set_during_stabilisation: Vec<WeakVar>,
    pub recompute_heap: RecomputeHeap,
}

impl State {
//@extract fn State::is_stabilising
//@ file: src/state.rs
//@ impl: impl State
//@ name: is_stabilising
//@ as: pub fn is_stabilising(&self) -> (r: bool)
//@ cells: status
//@ props: C07 C08 C13
//@ contract:
//@|     ensures r == !(self.status is NotStabilising), // [true-while-stabilising-and-while-handlers-run]
//@end
}

//@extract struct Var
//@ file: src/var.rs
//@ name: Var
//@ cells: value, value_set_during_stabilisation, set_at, node, node_id
//@ rule R4: `Var<T: Value>` => `Var` x1
//@ rule R4 re: `\bOption<T>` => `Option<u64>` x1
//@ rule R4 re: `value: T\b` => `value: u64` x1
//@ drop_fields: state
//@end

impl Var {
    spec fn stabilising(t: &State) -> bool { t.status is Stabilising }

//@extract fn Var::get
//@ file: src/var.rs
//@ impl: impl<T: Value> Var<T>
//@ name: get
//@ as: fn get(&self) -> (r: u64)
//@ cells: value
//@ props: C05 C06 C07 C08 C13
//@ contract:
//@|     ensures r == self.value, // [get-returns-the-logical-value]
//@end

//@extract fn Var::did_set_var_while_not_stabilising
//@ file: src/var.rs
//@ impl: impl<T: Value> Var<T>
//@ name: did_set_var_while_not_stabilising
//@ as: fn did_set_var_while_not_stabilising(&mut self, t: &mut State)
//@ cells: set_at, node, node_id
//@ cells@t: num_var_sets, stabilisation_num
//@ tracing: yes
//@ rule R5h re: `let (\w+) = self\s*\.\s*state\s*\.\s*upgrade\(\)\s*\.\s*unwrap\(\);` => `t` x1
//@ stamps: set_at, stabilisation_num, now
//@ rule R8 re: `debug_assert!\(\w+\.is_stale\(\)\);` => `` x*
//@ rule R8 re: `vx_assert\(\w+\.is_stale\(\)\);` => `` x*
//@ props: C05 C06 C07 C08 C13
//@ contract:
//@|     requires old(self).node is Some, old(t).num_var_sets < usize::MAX,
//@|     ensures
//@|         final(self).set_at.0 == (if old(self).set_at.0 < old(t).stabilisation_num.0 { old(t).stabilisation_num.0 } else { old(self).set_at.0 }), // [set_at-is-the-latest-stabilisation-written-in]
//@|         final(self).value == old(self).value && final(self).value_set_during_stabilisation == old(self).value_set_during_stabilisation && final(self).node_id == old(self).node_id, // [frame-var]
//@|         final(t).status == old(t).status && final(t).stabilisation_num == old(t).stabilisation_num && final(t).set_during_stabilisation == old(t).set_during_stabilisation, // [frame-state]
//@|         final(t).recompute_heap.inserted@.len() <= old(t).recompute_heap.inserted@.len() + 1, // [watch-queued-at-most-once]
//@|         forall|i: int| old(t).recompute_heap.inserted@.len() <= i < final(t).recompute_heap.inserted@.len() ==> node_necessary(&*#[trigger] final(t).recompute_heap.inserted@[i]), // [only-a-necessary-watch-node-is-queued]
//@end

//@extract fn Var::set_var_while_not_stabilising
//@ file: src/var.rs
//@ impl: impl<T: Value> Var<T>
//@ name: set_var_while_not_stabilising
//@ as: fn set_var_while_not_stabilising(&mut self, value: u64, t: &mut State)
//@ cells: value
//@ rule R5: `self.did_set_var_while_not_stabilising();` => `self.did_set_var_while_not_stabilising(t);` x1
//@ props: C05 C06 C07 C08 C13
//@ contract:
//@|     requires old(self).node is Some, old(t).num_var_sets < usize::MAX,
//@|     ensures
//@|         final(self).value == value, // [write-takes-effect-immediately]
//@|         final(self).value_set_during_stabilisation == old(self).value_set_during_stabilisation, // [pending-untouched]
//@|         final(self).set_at.0 == (if old(self).set_at.0 < old(t).stabilisation_num.0 { old(t).stabilisation_num.0 } else { old(self).set_at.0 }), // [set_at-is-the-latest-stabilisation-written-in]
//@|         final(t).status == old(t).status && final(t).stabilisation_num == old(t).stabilisation_num && final(t).set_during_stabilisation == old(t).set_during_stabilisation, // [frame-state]
//@|         forall|i: int| old(t).recompute_heap.inserted@.len() <= i < final(t).recompute_heap.inserted@.len() ==> node_necessary(&*#[trigger] final(t).recompute_heap.inserted@[i]), // [only-a-necessary-watch-node-is-queued]
//@end

//@extract fn Var::set
//@ file: src/var.rs
//@ impl: impl<T: Value> Var<T>
//@ name: set
//@ as: fn set(&mut self, value: u64, t: &mut State)
//@ cells: value, value_set_during_stabilisation, node_id
//@ cells@t: status, set_during_stabilisation
//@ rule R5h re: `let (\w+) = self\s*\.\s*state\s*\.\s*upgrade\(\)\s*\.\s*unwrap\(\);` => `t` x1
//@ rule R5: `self.set_var_while_not_stabilising(value);` => `self.set_var_while_not_stabilising(value, t);` x1
//@ rule R8: `self.erased()` => `vx_weak_var(self.node_id)` x1
//@ props: C05 C06 C07 C08 C13
//@ contract:
//@|     requires old(self).node is Some, old(t).num_var_sets < usize::MAX,
//@|     ensures
//@|         !Self::stabilising(old(t)) ==> final(self).value == value && final(self).value_set_during_stabilisation == old(self).value_set_during_stabilisation && final(t).set_during_stabilisation == old(t).set_during_stabilisation, // [outside-stabilise-the-write-is-immediate]
//@|         Self::stabilising(old(t)) ==> final(self).value == old(self).value, // [during-stabilise-readers-keep-the-pre-stabilise-value]
//@|         Self::stabilising(old(t)) ==> final(self).value_set_during_stabilisation == Some(value), // [during-stabilise-the-write-is-parked]
//@|         Self::stabilising(old(t)) ==> final(t).set_during_stabilisation@ == (if old(self).value_set_during_stabilisation is None { old(t).set_during_stabilisation@.push(weak_var_of(old(self).node_id)) } else { old(t).set_during_stabilisation@ }), // [var-registered-for-stabilise-end-exactly-when-first-parked]
//@|         Self::stabilising(old(t)) ==> final(self).set_at == old(self).set_at && final(t).recompute_heap.inserted@ == old(t).recompute_heap.inserted@, // [during-stabilise-nothing-is-scheduled]
//@|         final(t).status == old(t).status && final(t).stabilisation_num == old(t).stabilisation_num, // [frame-state]
//@end

//@extract fn Var::break_rc_cycle
//@ file: src/var.rs
//@ impl: impl<T: Value> ErasedVariable for Var<T>
//@ name: break_rc_cycle
//@ as: fn break_rc_cycle(&mut self)
//@ cells: node
//@ props: C05 C06 C07 C08 C13
//@ contract:
//@|     ensures
//@|         final(self).node is None, // [the-var-lets-go-of-its-watch-node]
//@|         final(self).value == old(self).value && final(self).value_set_during_stabilisation == old(self).value_set_during_stabilisation, // [frame]
//@|     // [teardown-never-panics-whatever-is-pending]: no precondition, in either build
//@end

//@extract fn Var::set_var_stabilise_end
//@ file: src/var.rs
//@ impl: impl<T: Value> ErasedVariable for Var<T>
//@ name: set_var_stabilise_end
//@ as: fn set_var_stabilise_end(&mut self, t: &mut State)
//@ cells: value_set_during_stabilisation
//@ rule R5: `self.set_var_while_not_stabilising(v);` => `self.set_var_while_not_stabilising(v, t);` x1
//@ props: C05 C06 C07 C08 C13
//@ contract:
//@|     requires old(self).node is Some, old(t).num_var_sets < usize::MAX,
//@|     ensures
//@|         final(self).value_set_during_stabilisation is None, // [pending-cleared]
//@|         old(self).value_set_during_stabilisation is Some ==> final(self).value == old(self).value_set_during_stabilisation.unwrap(), // [parked-write-applied]
//@|         old(self).value_set_during_stabilisation is Some ==> final(self).set_at.0 == (if old(self).set_at.0 < old(t).stabilisation_num.0 { old(t).stabilisation_num.0 } else { old(self).set_at.0 }), // [a-parked-write-is-stamped-like-any-other-write-so-the-next-stabilise-propagates-it-even-if-the-value-is-equal]
//@|         old(self).value_set_during_stabilisation is None ==> final(self).value == old(self).value && final(self).set_at == old(self).set_at && final(t).recompute_heap.inserted@ == old(t).recompute_heap.inserted@, // [nothing-parked-nothing-happens]
//@end

// (Var::was_changed_during_stabilisation is not under contract: Option::map_or with an unannotated closure)

//@extract fn Var::update
//@ file: src/var.rs
//@ impl: impl<T: Value> Var<T>
//@ name: update
//@ as: fn update<F: FnOnce(u64) -> u64>(&mut self, f: F, t: &mut State)
//@ cells: value, value_set_during_stabilisation, node_id
//@ cells@t: status, set_during_stabilisation
//@ rule R5h re: `let (\w+) = self\s*\.\s*state\s*\.\s*upgrade\(\)\s*\.\s*unwrap\(\);` => `t` x1
//@ rule R5: `self.did_set_var_while_not_stabilising();` => `self.did_set_var_while_not_stabilising(t);` x1
//@ rule R8: `self.erased()` => `vx_weak_var(self.node_id)` x1
//@ props: C05 C06 C07 C08 C13
//@ contract:
//@|     requires old(self).node is Some, old(t).num_var_sets < usize::MAX, forall|x: u64| call_requires(f, (x,)),
//@|     ensures
//@|         !Self::stabilising(old(t)) ==> call_ensures(f, (old(self).value,), final(self).value) && final(self).value_set_during_stabilisation == old(self).value_set_during_stabilisation && final(t).set_during_stabilisation == old(t).set_during_stabilisation, // [outside-stabilise-value-becomes-f-of-value]
//@|         Self::stabilising(old(t)) ==> final(self).value == old(self).value, // [during-stabilise-readers-keep-the-pre-stabilise-value]
//@|         Self::stabilising(old(t)) ==> final(self).value_set_during_stabilisation is Some && call_ensures(f, ((if old(self).value_set_during_stabilisation is Some { old(self).value_set_during_stabilisation.unwrap() } else { old(self).value }),), final(self).value_set_during_stabilisation.unwrap()), // [deferred-writes-compose-in-program-order]
//@|         Self::stabilising(old(t)) ==> final(t).set_during_stabilisation@ == (if old(self).value_set_during_stabilisation is None { old(t).set_during_stabilisation@.push(weak_var_of(old(self).node_id)) } else { old(t).set_during_stabilisation@ }), // [var-registered-for-stabilise-end-exactly-when-first-parked]
//@|         Self::stabilising(old(t)) ==> final(self).set_at == old(self).set_at && final(t).recompute_heap.inserted@ == old(t).recompute_heap.inserted@, // [during-stabilise-nothing-is-scheduled]
//@|         final(t).status == old(t).status && final(t).stabilisation_num == old(t).stabilisation_num, // [frame-state]
//@end

//@extract fn Var::replace_with
//@ file: src/var.rs
//@ impl: impl<T: Value> Var<T>
//@ name: replace_with
//@ as: fn replace_with<F: FnOnce(&mut u64) -> u64>(&mut self, f: F, t: &mut State) -> (r: u64)
//@ cells: value, value_set_during_stabilisation, node_id
//@ cells@t: status, set_during_stabilisation
//@ rule R5h re: `let (\w+) = self\s*\.\s*state\s*\.\s*upgrade\(\)\s*\.\s*unwrap\(\);` => `t` x1
//@ rule R5: `self.did_set_var_while_not_stabilising();` => `self.did_set_var_while_not_stabilising(t);` x1
//@ rule R8: `self.erased()` => `vx_weak_var(self.node_id)` x1
//@ props: C05 C06 C07 C08 C13
//@ contract:
//@|     requires old(self).node is Some, old(t).num_var_sets < usize::MAX, forall|x: &mut u64| call_requires(f, (x,)),
//@|     ensures
//@|         Self::stabilising(old(t)) ==> final(self).value == old(self).value && final(self).value_set_during_stabilisation is Some, // [during-stabilise-readers-keep-the-pre-stabilise-value]
//@|         Self::stabilising(old(t)) ==> final(t).set_during_stabilisation@ == (if old(self).value_set_during_stabilisation is None { old(t).set_during_stabilisation@.push(weak_var_of(old(self).node_id)) } else { old(t).set_during_stabilisation@ }), // [var-registered-for-stabilise-end-exactly-when-first-parked]
//@|         Self::stabilising(old(t)) ==> final(self).set_at == old(self).set_at && final(t).recompute_heap.inserted@ == old(t).recompute_heap.inserted@, // [during-stabilise-nothing-is-scheduled]
//@|         !Self::stabilising(old(t)) ==> final(self).value_set_during_stabilisation == old(self).value_set_during_stabilisation && final(t).set_during_stabilisation == old(t).set_during_stabilisation, // [outside-stabilise-nothing-is-parked]
//@|         final(t).status == old(t).status && final(t).stabilisation_num == old(t).stabilisation_num, // [frame-state]
//@end

//@extract fn Var::modify
//@ file: src/var.rs
//@ impl: impl<T: Value> Var<T>
//@ name: modify
//@ as: fn modify<F: FnOnce(&mut u64)>(&mut self, f: F, t: &mut State)
//@ cells: value, value_set_during_stabilisation, node_id
//@ cells@t: status, set_during_stabilisation
//@ rule R5h re: `let (\w+) = self\s*\.\s*state\s*\.\s*upgrade\(\)\s*\.\s*unwrap\(\);` => `t` x1
//@ rule R5: `self.did_set_var_while_not_stabilising();` => `self.did_set_var_while_not_stabilising(t);` x1
//@ rule R8: `self.erased()` => `vx_weak_var(self.node_id)` x1
//@ props: C05 C06 C07 C08 C13
//@ contract:
//@|     requires old(self).node is Some, old(t).num_var_sets < usize::MAX, forall|x: &mut u64| call_requires(f, (x,)),
//@|     ensures
//@|         Self::stabilising(old(t)) ==> final(self).value == old(self).value && final(self).value_set_during_stabilisation is Some, // [during-stabilise-readers-keep-the-pre-stabilise-value]
//@|         Self::stabilising(old(t)) ==> final(t).set_during_stabilisation@ == (if old(self).value_set_during_stabilisation is None { old(t).set_during_stabilisation@.push(weak_var_of(old(self).node_id)) } else { old(t).set_during_stabilisation@ }), // [var-registered-for-stabilise-end-exactly-when-first-parked]
//@|         Self::stabilising(old(t)) ==> final(self).set_at == old(self).set_at && final(t).recompute_heap.inserted@ == old(t).recompute_heap.inserted@, // [during-stabilise-nothing-is-scheduled]
//@|         !Self::stabilising(old(t)) ==> final(self).value_set_during_stabilisation == old(self).value_set_during_stabilisation && final(t).set_during_stabilisation == old(t).set_during_stabilisation, // [outside-stabilise-nothing-is-parked]
//@|         final(t).status == old(t).status && final(t).stabilisation_num == old(t).stabilisation_num, // [frame-state]
//@end
}


// ---- public::Var drop (src/public.rs): the last handle parks the variable for teardown at stabilise end,
//      whatever is pending on it ("including variables whose last handle is dropped while a deferred write is pending") ----
pub uninterp spec fn rc_count<T: ?Sized, A: std::alloc::Allocator>(r: &Rc<T, A>) -> usize;
pub assume_specification<T: ?Sized, A: std::alloc::Allocator>[ Rc::<T, A>::strong_count ](this: &Rc<T, A>) -> (r: usize)
    ensures r == rc_count(this);

#[verifier::external_body]
pub struct DeadVarsGuard { _p: u8 }
impl DeadVarsGuard {
    #[verifier::external_body]
    pub fn push(&mut self, w: WeakVar) { unimplemented!() }
    #[verifier::external_body]
    pub fn push__reached(&mut self, w: WeakVar) ensures false { unimplemented!() }
}
#[verifier::external_body]
pub struct DeadVars { _p: u8 }
impl DeadVars {
    #[verifier::external_body]
    pub fn borrow_mut(&self) -> DeadVarsGuard { unimplemented!() }
}
pub struct StateDV { pub dead_vars: DeadVars }
#[verifier::external_body]
pub struct WeakStateDV { _p: u8 }
pub uninterp spec fn state_alive(w: &WeakStateDV) -> bool;
impl WeakStateDV {
    #[verifier::external_body]
    pub fn upgrade(&self) -> (r: Option<Rc<StateDV>>) ensures r is Some == state_alive(self) { unimplemented!() }
}
/// the shared variable as seen through the handle's Rc: only what Var::drop does with it
pub struct SharedVar { pub state: WeakStateDV }
impl SharedVar {
    #[verifier::external_body]
    pub fn erased(&self) -> WeakVar { unimplemented!() }
    #[verifier::external_body]
    pub fn break_rc_cycle(&self) { unimplemented!() }
    #[verifier::external_body]
    pub fn break_rc_cycle__reached(&self) ensures false { unimplemented!() }
    #[verifier::external_body]
    pub fn was_changed_during_stabilisation(&self) -> bool { unimplemented!() }
}
pub struct PublicVar { pub internal: Rc<SharedVar>, pub sentinel: Rc<()> }

impl PublicVar {
    #[verifier::external_body]
    fn id(&self) -> NodeId { unimplemented!() }

//@extract fn public::Var::drop!not_last
//@ file: src/public.rs
//@ impl: impl<T: Value> Drop for Var<T>
//@ name: drop
//@ as: fn drop__other_handles_alive(&mut self)
//@ tracing: yes
//@ rule R8 re: `\w+\s*\.\s*push\(\s*self\s*\.\s*internal\s*\.\s*erased\(\)\s*\)` => `vx_forbidden()` x*
//@ rule R8 re: `self\s*\.\s*internal\s*\.\s*break_rc_cycle\(\)` => `vx_forbidden()` x*
//@ props: C08 C13
//@ contract:
//@|     requires rc_count(&old(self).sentinel) >= 2,
//@|     // [dropping-a-handle-that-is-not-the-last-touches-nothing]
//@end

//@extract fn public::Var::drop!last_state_alive
//@ file: src/public.rs
//@ impl: impl<T: Value> Drop for Var<T>
//@ name: drop
//@ as: fn drop__last_handle_parks_the_variable(&mut self)
//@ tracing: yes
//@ panics: diverge
//@ rule R8 re: `(\w+)\s*\.\s*push\(\s*self\s*\.\s*internal\s*\.\s*erased\(\)\s*\)` => `\1.push__reached(self.internal.erased())` x*
//@ rule R8 re: `self\s*\.\s*internal\s*\.\s*break_rc_cycle\(\)` => `vx_forbidden()` x*
//@ props: C08 C13
//@ contract:
//@|     requires rc_count(&old(self).sentinel) <= 1, state_alive(&old(self).internal.state),
//@|     ensures false, // [the-last-handle-always-parks-the-variable-on-dead_vars-whatever-is-pending]  (never tears it down at once)
//@end

//@extract fn public::Var::drop!last_state_gone
//@ file: src/public.rs
//@ impl: impl<T: Value> Drop for Var<T>
//@ name: drop
//@ as: fn drop__last_handle_after_the_state_breaks_the_cycle(&mut self)
//@ tracing: yes
//@ panics: diverge
//@ rule R8 re: `\w+\s*\.\s*push\(\s*self\s*\.\s*internal\s*\.\s*erased\(\)\s*\)` => `vx_forbidden()` x*
//@ rule R8 re: `self\s*\.\s*internal\s*\.\s*break_rc_cycle\(\)` => `self.internal.break_rc_cycle__reached()` x*
//@ props: C08 C13
//@ contract:
//@|     requires rc_count(&old(self).sentinel) <= 1, !state_alive(&old(self).internal.state),
//@|     ensures false, // [the-last-handle-after-the-state-is-gone-breaks-the-var-node-cycle]
//@end
}

// ---- State::is_stable (src/state.rs) -------------------------------------------------------------------
pub struct PendingHeap { pub length: usize }
impl PendingHeap {
    /// R8: RecomputeHeap::is_empty, verified in unit `heaps` on the AdjustHeightsHeap twin; here by its contract
    #[verifier::external_body]
    pub fn is_empty(&self) -> (r: bool) ensures r == (self.length == 0) { unimplemented!() }
}
pub struct StateQueues {
    pub recompute_heap: PendingHeap,
    pub dead_vars: Vec<WeakVar>,
    pub new_observers: Vec<WeakVar>,
}
impl StateQueues {
//@extract fn State::is_stable
//@ file: src/state.rs
//@ impl: impl State
//@ name: is_stable
//@ as: fn is_stable(&self) -> (r: bool)
//@ cells: dead_vars, new_observers
//@ props: C08
//@ contract:
//@|     ensures r == (self.recompute_heap.length == 0 && self.dead_vars@.len() == 0 && self.new_observers@.len() == 0), // [stable-iff-nothing-queued-no-dead-vars-no-new-observers]
//@end
}

} // verus!
fn main() {}
