// ---- vx prelude: helpers substituted by the extraction rules (trusted; each is listed in evidence) ----
// R6: a reachable panic!/unreachable! is an obligation (the helper can never be called).
#[verifier::external_body]
pub fn vx_panic() -> !
    requires false,
{ panic!() }

// R6: assert!/debug_assert!(c) is the obligation `c`.
pub fn vx_assert(c: bool)
    requires c,
{ }

// R6 (must-panic variants): panic! diverges; assert!(c) either diverges or c holds afterwards.
#[verifier::external_body]
pub fn vx_diverge() -> !
    ensures false,
{ panic!() }

#[verifier::external_body]
pub fn vx_assert_or_diverge(c: bool)
    ensures c,
{ assert!(c) }

// must-not-call / order variants: a call site that must not be reached (before its prerequisite)
#[verifier::external_body]
pub fn vx_forbidden()
    requires false,
{ }

// canaries of must-panic variants: body replaced by an arbitrary return value; must be rejected.
#[verifier::external_body]
pub fn vx_any<T>() -> T { unimplemented!() }

// R1c prefix: stands for the statements after the cut point of a function of which only a prefix is under contract
#[verifier::external_body]
pub fn vx_rest_of_body_not_under_contract<T>() -> T { unimplemented!() }

// R5: `RefCell<Option<T>>::take()` (= mem::take; Option's Default is None) on an erased cell
pub fn vx_take<T>(o: &mut Option<T>) -> (r: Option<T>)
    ensures r == *old(o), *final(o) is None,
{ o.take() }
