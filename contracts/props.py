"""Which units / frame obligations decide which property, and what stays uncovered (reported in evidence)."""

PROPS = {
    'C18': dict(
        units=['symfold'], level='proof',
        replays=[],
        uncovered=[
            'generic K: Ord / V: PartialEq (keys and values are instantiated at u64; parametricity and lawful Ord are assumed)',
            'OrdMap: the enumeration itself is im_rc::ordmap::DiffIter (assumed contract on a dependency); only the adapter DiffElement::from_diff_item is under contract',
            'Iterator::fold itself (trusted model vx_fold: folds f over exactly the items next() yields)',
            'behaviour of MergeOnce after it first returned None beyond what its invariant says',
        ]),
    'C19': dict(
        units=['heaps', 'heightwalk', 'edges'], level='proof',
        replays=['c19_limit.rs', 'c19_drop_after_height_panic.rs'],
        uncovered=[
            'that closing a cycle through binds reaches ensure_height_requirement with the offending pair (graph walk in adjust_heights: not under contract)',
            'termination of adjust_heights ("never hangs")',
            'the cross-state assertion inside recompute_one (BindLhsChange arm) - that function is outside every unit',
            'that handles can still be dropped after the panic (drop glue / unwinding is outside both verifiers)',
        ]),
    'C14': dict(
        units=['expert', 'nodepred', 'edges', 'steps', 'cutoffs'], level='proof',
        replays=['c14_invalid_dep_removed.rs', 'c14_callback_on_new_dependency.rs', 'c14_callback_on_valueless_child.rs'],
        uncovered=[
            'state_add_parent, remove_parent, check_if_unnecessary as reached from the expert paths are opaque callees with call-site obligations (receiver, index, order); their own bodies are under contract in units heightwalk / edges / nodepred',
            'double-borrow panics on duplicate children (RefCell borrow flags are erased by rule R5)',
            'that every due change callback is delivered (liveness of on_change calls); only the latches that gate them are under contract',
            'equality of the node value with the reference combinator (C01-level)',
        ]),
    'C10': dict(
        units=['observer', 'steps'], level='proof',
        replays=['c10_clone_dropped_before_first_stabilise.rs'],
        uncovered=[
            'the iteration of the loops whose bodies are under contract as functions of one item (rule R7h): that every queued observer / handler is visited, once, is pinned only by a non-strict frame (drain) or not at all',
            'that Observer::clone clones the sentinel (derive(Clone)): trusted',
        ]),
    'C09': dict(
        units=['handlers', 'observer', 'nodepred', 'steps'], level='proof',
        replays=['c09_spurious_changed.rs', 'c09_double_unsubscribe.rs', 'c09_state_unsubscribe_before_first_stabilise.rs', 'c05_last_handle_dropped_in_own_callback.rs'],
        uncovered=[
            'that a due callback is actually invoked (liveness); the contracts pin the argument of every call that is made, and the handler state after it',
            'the iteration of the delivery loops (their per-item bodies are under contract, rule R7h; that every handler is visited is not)',
            'that maybe_change_value sets changed_at exactly when the cutoff does not suppress the new value (see C06)',
        ]),
    'C08': dict(
        units=['var', 'steps'], level='proof',
        replays=[],
        uncovered=[
            'that every reader in the running stabilise goes through Var::compute, and that the next stabilise propagates the value (C01-level)',
            'RefCell borrow panics (erased by R5)',
        ]),
    'C11': dict(
        units=['observer', 'edges', 'nodepred', 'heightwalk', 'heaps', 'steps'], level='other',
        replays=['c11_handler_count.incrate.rs'],
        uncovered=[
            'only two clauses are under contract: the per-node handler count, and the per-call effect of add_parent / remove_parent / expert_swap_children_except_in_kind on the index arrays of the nodes involved (an edge is recorded, removed or re-slotted symmetrically on both ends); that these calls are made for the right nodes, heights, recompute-heap membership and stats().necessary are relations across the graph and are not under contract (pinned only by a few statement-order frames)',
            'duplicate parents / duplicate children share one RefCell in the real code; the per-node `&mut` parameters of rule R5p assume distinct nodes',
        ]),
    'C07': dict(
        units=['observer', 'var', 'heaps', 'steps'], level='other',
        replays=['c10_clone_dropped_before_first_stabilise.rs'],
        uncovered=[
            '"all observers reflect one assignment of variable values" (C01-level)',
            'that value_opt writers are reachable only from stabilise or expert invalidate: written argument, not machine-checked',
        ]),
    'C13': dict(
        units=['heaps', 'observer', 'var', 'edges', 'steps'], level='other',
        replays=[],
        uncovered=[
            '"dropping every handle and the state completes without a second panic": unwinding / Drop order is outside both verifiers',
            'the inference from "status is never reset on an unwind path" to "no partial result is ever readable" is a written argument',
        ]),
    'C06': dict(
        units=['nodepred', 'heaps', 'var', 'heightwalk', 'cutoffs'], level='other',
        replays=[],
        uncovered=[
            'the parent-notification loops of maybe_change_value_manual and child_changed (which parents are told, in which order): frame obligations only; the cutoff consultation in maybe_change_value and in the map_ref arm of child_changed is under contract (unit cutoffs)',
            'the MapRef did_change flag over time (a known history-dependent defect is recorded in DESIGN.md section 5 as not decidable here)',
        ]),
    'C05': dict(
        units=['nodepred', 'observer', 'var', 'heightwalk', 'steps'], level='other',
        replays=['c05_last_handle_dropped_in_own_callback.rs'],
        uncovered=[
            'the became_unnecessary cascade as a whole and the cone statement itself (per step: who is rechecked / dequeued / linked is under contract)',
            'two recompute_heap.insert sites rely on a debug assertion only (maybe_change_value_manual, state_add_parent)',
        ]),
}

# functions of shared units count for a property only if tagged with it (//@ props:), lemmas via LEMMA_PROPS
LEMMA_PROPS = {
    'symfold': {'*': ['C18']},
    'heaps': {'lemma_reconfiguring_keeps_every_queued_node_reachable': ['C06', 'C19'], 'lemma_insert_keeps_every_queued_node_reachable': ['C06', 'C19'],
              'lemma_sum_len_update': ['C06'], 'lemma_sum_len_positive_has_nonempty': ['C06'], 'lemma_counted_heap_satisfies_the_scheduler_invariant': ['C06'],
              'lemma_remove_min_keeps_the_count_and_the_lower_bound': ['C06'], 'lemma_insert_keeps_the_count': ['C06'], '*': ['C19']},
    'heightwalk': {'*': ['C19']},   # no lemmas
    'expert': {'*': ['C14']},
    'handlers': {'*': ['C09']},
    'observer': {'lemma_handler_count_invariant': ['C11', 'C09'], 'lemma_lifecycle': ['C10'], '*': ['C10']},
    'var': {'*': ['C08']},
    'edges': {'*': ['C11']},
    'nodepred': {'*': ['C06', 'C05']},   # (no lemmas yet)
    'steps': {'*': ['C10']},   # (no lemmas)
    'cutoffs': {'*': ['C06']},   # (no lemmas)
}

NOT_APPLICABLE = {
    'C01': 'needs the engine-wide inductive invariant over ~25 functions that mutate several Rc-shared nodes through &self (Cell/RefCell): Verus cannot see those writes, Kani cannot instantiate a node; no contract within reach decides it',
    'C02': 'scheduling order across RecomputeHeap (nested RefCells), adjust_heights and parent_iter_can_recompute_now: a protocol-level invariant over functions neither verifier reaches',
    'C03': 'bind-scope invalidation is a whole-history property of the same multi-node functions (invalidate_nodes_created_on_rhs, propagate_invalidity); not expressible as a per-function contract here',
    'C04': 'a statement about every public call; panic-freedom is proved only inside the functions under contract (reported under their own properties); RefCell borrow panics are erased by rule R5',
    'C12': 'reference-count reachability and Drop order: Verus does not model Rc counts or Drop, Kani times out on this crate\'s drop glue',
    'C15': 'operator bodies are closures handed to map_with_old/symmetric_fold capturing &mut state and user FnMuts; Verus rejects them and naming them would be hand-rewriting; the covered part is C18',
    'C16': 'expert API driven from inside a map function plus graph surgery across nodes; see the uncovered part of C14',
    'C17': 'the only reachable link is C18 ("exactly the differing keys, once"); the user-function invocation sites are the closures of C15',
    'C20': 'Rc/Weak liveness of memo entries plus scope attribution of created nodes; engine state behind RefCell<Scope>; no contract within reach decides it',
}
