// Unit heightwalk (C19): the walk that restores child<parent heights after an edge is added
// (AdjustHeightsHeap::adjust_heights, Node::ensure_parent_height_requirements, Node::adjust_heights_bind_lhs_change).
// Only call-site obligations are decided here: every step of the walk hands the *same* (original_child,
// original_parent) pair, in that order, to ensure_height_requirement - which is what cycle detection compares against.
// The heap operations themselves are verified in unit `heaps`; here they are opaque.
use vstd::prelude::*;
use std::rc::Rc;

verus! {

//@include vx_prelude.rs

#[verifier::external_body]
pub struct Node { _p: u8 }
pub type NodeRef = Rc<Node>;
#[verifier::external_body]
pub struct WeakNode { _p: u8 }
pub uninterp spec fn weak_target(w: &WeakNode) -> Option<NodeRef>;
impl WeakNode {
    #[verifier::external_body]
    pub fn upgrade(&self) -> (r: Option<NodeRef>) ensures r is Some, r == weak_target(self) { unimplemented!() }   // parents / rhs nodes of a necessary node are alive
}
/// a weak handle that may be dead (BindNode::main / lhs_change): same type in the real code, separate stand-in so
/// that liveness is a precondition here
#[verifier::external_body]
pub struct MaybeDeadWeak { _p: u8 }
pub uninterp spec fn mdw_target(w: &MaybeDeadWeak) -> Option<NodeRef>;
impl MaybeDeadWeak {
    #[verifier::external_body]
    pub fn upgrade(&self) -> (r: Option<NodeRef>) ensures r == mdw_target(self) { unimplemented!() }
}
pub uninterp spec fn node_valid(n: &Node) -> bool;
#[verifier::external_body]
pub struct RecomputeHeap { _p: u8 }
impl RecomputeHeap {
    #[verifier::external_body]
    pub fn increase_height(&self, node: &NodeRef) { unimplemented!() }
}
#[verifier::external_body]
pub struct BindNode { _p: u8 }

/// permission predicate: the (original_child, original_parent) pair the current walk was started with
pub uninterp spec fn walk_originals(oc: &NodeRef, op: &NodeRef) -> bool;

pub struct AdjustHeightsHeap { pub height_lower_bound: i32 }
pub uninterp spec fn node_height(n: &Node) -> i32;
pub uninterp spec fn node_in_heap(n: &Node) -> bool;
pub uninterp spec fn node_never_computed(n: &Node) -> bool;
pub uninterp spec fn edge_stale(child: &Node, parent: &Node) -> bool;
pub uninterp spec fn node_necessary(n: &Node) -> bool;
#[verifier::external_body]
pub struct HeapHandle { _p: u8 }
impl HeapHandle {
    /// RecomputeHeap::insert: the membership part of its debug assertion
    #[verifier::external_body]
    pub fn insert(&self, node: NodeRef) requires !node_in_heap(&*node) && node_necessary(&*node) { unimplemented!() }
    #[verifier::external_body]
    pub fn insert__reached(&self, node: NodeRef) requires !node_in_heap(&*node) && node_necessary(&*node) ensures false { unimplemented!() }
}
pub struct StampV { pub never: bool }
impl StampV {
    #[verifier::external_body]
    pub fn is_never(&self) -> (r: bool) ensures r == self.never { unimplemented!() }
}
pub struct StampCell { pub v: StampV }
impl StampCell {
    #[verifier::external_body]
    pub fn get(&self) -> (r: &StampV) ensures r == &self.v { unimplemented!() }
}
/// the engine state as far as state_add_parent touches it (R5 on adjust_heights_heap; recompute_heap shared)
pub struct State { pub adjust_heights_heap: AdjustHeightsHeap, pub recompute_heap: RecomputeHeap, pub heap: HeapHandle }
impl State {
    #[verifier::external_body]
    pub fn propagate_invalidity(&self) { unimplemented!() }
}
impl AdjustHeightsHeap {
    #[verifier::external_body]
    fn is_empty(&self) -> bool { unimplemented!() }
    #[verifier::external_body]
    fn remove_min(&mut self) -> Option<NodeRef> { unimplemented!() }
    /// verified in unit `heaps`; here: it must be told the originals of the walk, in this order
    #[verifier::external_body]
    fn ensure_height_requirement(&mut self, original_child: &NodeRef, original_parent: &NodeRef, child: &NodeRef, parent: &NodeRef)
        requires walk_originals(original_child, original_parent),
    { unimplemented!() }
    /// the same callee as reached from a method of the node `from` (rule R8 adds `self` as the first argument at
    /// the call site): the edge it is asked to check must start at that node - `from` is the child, the node found
    /// through its parent list / bind scope is the parent
    #[verifier::external_body]
    fn ensure_height_requirement__from(&mut self, from: &Node, original_child: &NodeRef, original_parent: &NodeRef, child: &NodeRef, parent: &NodeRef)
        requires walk_originals(original_child, original_parent), **child == *from,
    { unimplemented!() }
}

impl Node {
    #[verifier::external_body]
    fn height(&self) -> (r: i32) ensures r == node_height(self) { unimplemented!() }
    #[verifier::external_body]
    fn is_in_recompute_heap(&self) -> (r: bool) ensures r == node_in_heap(self) { unimplemented!() }
    #[verifier::external_body]
    fn is_necessary(&self) -> (r: bool) ensures r == node_necessary(self) { unimplemented!() }
    #[verifier::external_body]
    fn packed(&self) -> (r: NodeRef) ensures *r == *self { unimplemented!() }
    #[verifier::external_body]
    fn erased(&self) -> (r: &Node) ensures r == self { unimplemented!() }
    #[verifier::external_body]
    fn is_valid(&self) -> (r: bool) ensures r == node_valid(self) { unimplemented!() }
    #[verifier::external_body]
    fn recomputed_at(&self) -> (r: &StampCell) ensures r.v.never == node_never_computed(self) { unimplemented!() }
    #[verifier::external_body]
    fn edge_is_stale(&self, parent: &Node) -> (r: bool) ensures r == edge_stale(self, parent) { unimplemented!() }
    #[verifier::external_body]
    fn add_parent_without_adjusting_heights(&self, child_index: i32, parent_ref: &Node, state: &State) { unimplemented!() }
    #[verifier::external_body]
    fn kind_debug_ty(&self) -> u64 { unimplemented!() }
    #[verifier::external_body]
    fn parents(&self) -> (r: &Vec<WeakNode>) { unimplemented!() }
    #[verifier::external_body]
    fn rhs_nodes_if_bind_lhs_change(&self) -> (r: Option<&Vec<WeakNode>>) { unimplemented!() }
    #[verifier::external_body]
    fn id(&self) -> u64 { unimplemented!() }

//@extract fn Node::ensure_parent_height_requirements
//@ file: src/node.rs
//@ impl: impl ErasedNode for Node
//@ name: ensure_parent_height_requirements
//@ as: fn ensure_parent_height_requirements(&self, ahh: &mut AdjustHeightsHeap, original_child: &NodeRef, original_parent: &NodeRef)
//@ attr: #[verifier::exec_allows_no_decreases_clause]
//@ rule R5: `self.parents.borrow()` => `self.parents()` x1
//@ rule R8 re: `(\w+)\s*\.\s*ensure_height_requirement\(` => `\1.ensure_height_requirement__from(self, ` x1
//@ props: C11 C19
//@ contract:
//@|     requires forall|a: &NodeRef, b: &NodeRef| walk_originals(a, b) <==> (a == original_child && b == original_parent),
//@|     // [every-parent-edge-is-checked-against-the-originals-of-this-walk-in-order-with-this-node-as-the-child]
//@ loop 0:
//@|     invariant forall|a: &NodeRef, b: &NodeRef| walk_originals(a, b) <==> (a == original_child && b == original_parent),
//@end

//@extract fn Node::adjust_heights_bind_lhs_change
//@ file: src/node.rs
//@ impl: impl ErasedNode for Node
//@ name: adjust_heights_bind_lhs_change
//@ as: fn adjust_heights_bind_lhs_change(&self, ahh: &mut AdjustHeightsHeap, oc: &NodeRef, op: &NodeRef)
//@ attr: #[verifier::exec_allows_no_decreases_clause]
//@ tracing: yes
//@ rule R5 re: `if let Some\(Kind::BindLhsChange \{ bind, \.\. \}\) = self\.kind\(\)` => `if let Some(vx_rhs_nodes) = self.rhs_nodes_if_bind_lhs_change()` x1
//@ rule R5: `let all = bind.all_nodes_created_on_rhs.borrow();` => `let all = vx_rhs_nodes;` x1
//@ rule R8 re: `(\w+)\s*\.\s*ensure_height_requirement\(` => `\1.ensure_height_requirement__from(self, ` x1
//@ props: C11 C19
//@ contract:
//@|     requires forall|a: &NodeRef, b: &NodeRef| walk_originals(a, b) <==> (a == oc && b == op),
//@|     // [every-bind-scope-edge-is-checked-against-the-originals-of-this-walk-in-order-with-the-lhs-change-node-as-the-child]
//@ loop 0:
//@|     invariant forall|a: &NodeRef, b: &NodeRef| walk_originals(a, b) <==> (a == oc && b == op),
//@end
}

impl AdjustHeightsHeap {
//@extract loopbody AdjustHeightsHeap::adjust_heights/each
//@ file: src/adjust_heights_heap.rs
//@ impl: impl AdjustHeightsHeap
//@ name: adjust_heights
//@ loop_containing: `ensure_parent_height_requirements`
//@ as: fn adjust_heights__each(&mut self, vx_item: NodeRef, rch: &RecomputeHeap, original_child: NodeRef, original_parent: NodeRef)
//@ props: C11 C19
//@ must_call the-parent-edges-of-every-popped-node-are-checked: `\.\s*ensure_parent_height_requirements\(`
//@ must_call the-bind-scope-edges-of-every-popped-node-are-checked: `\.\s*adjust_heights_bind_lhs_change\(`
//@ must_call a-popped-node-that-is-scheduled-is-moved-to-the-bucket-of-its-new-height: `\.\s*increase_height\(` when `node_in_heap(&*vx_item)`
//@ never_call a-popped-node-that-is-not-scheduled-is-not-touched-in-the-scheduler: `\.\s*increase_height\(` when `!node_in_heap(&*vx_item)`
//@ contract:
//@|     requires forall|a: &NodeRef, b: &NodeRef| walk_originals(a, b) <==> (*a == original_child && *b == original_parent),
//@end

//@extract fn AdjustHeightsHeap::adjust_heights
//@ file: src/adjust_heights_heap.rs
//@ impl: impl AdjustHeightsHeap
//@ name: adjust_heights
//@ as: fn adjust_heights(&mut self, rch: &RecomputeHeap, original_child: NodeRef, original_parent: NodeRef)
//@ attr: #[verifier::exec_allows_no_decreases_clause]
//@ tracing: yes
//@ cfg: release
//@ props: C11 C19
//@ contract:
//@|     requires forall|a: &NodeRef, b: &NodeRef| walk_originals(a, b) <==> (*a == original_child && *b == original_parent),
//@|     // [the-walk-starts-at-the-new-edge-and-hands-the-same-originals-to-every-step]  (release variant: the four
//@|     //  debug assertions of this function are graph facts that are not decided here)
//@ loop 0:
//@|     invariant forall|a: &NodeRef, b: &NodeRef| walk_originals(a, b) <==> (*a == original_child && *b == original_parent),
//@end
}


// ---- Node::state_add_parent (src/node.rs): linking a child under a necessary parent restores heights first and
//      queues the parent only when it is owed a recompute.  R5p: `state` is `&mut` with adjust_heights_heap erased. ----
impl Node {
//@extract fn Node::state_add_parent
//@ file: src/node.rs
//@ impl: impl ErasedNode for Node
//@ name: state_add_parent
//@ as: fn state_add_parent(&self, child_index: i32, parent_ref: &Node, state: &mut State)
//@ tracing: yes
//@ cells@state: adjust_heights_heap
//@ rule R5: `self.add_parent_without_adjusting_heights(child_index, parent_ref, state);` => `self.add_parent_without_adjusting_heights(child_index, parent_ref, &*state);` x1
//@ rule R5: `let rch = &state.recompute_heap;` => `` x1
//@ rule R5: `ah_heap.adjust_heights(rch, ` => `ah_heap.adjust_heights(&state.recompute_heap, ` x1
//@ rule R8: `state.recompute_heap.insert(` => `state.heap.insert(` x*
//@ props: C05 C06 C11 C19
//@ contract:
//@|     requires
//@|         node_necessary(parent_ref),
//@|         // the height walk may only be started from this very edge (child = self, parent = parent_ref):
//@|         forall|a: &NodeRef, b: &NodeRef| walk_originals(a, b) <==> (**a == *self && **b == *parent_ref),
//@|     // [heights-are-restored-from-the-new-edge-and-the-parent-is-queued-only-if-not-already-and-owed-a-recompute]
//@end

//@extract fn Node::state_add_parent!must_queue
//@ file: src/node.rs
//@ impl: impl ErasedNode for Node
//@ name: state_add_parent
//@ as: fn state_add_parent__a_parent_that_never_ran_or_missed_this_childs_change_is_queued(&self, child_index: i32, parent_ref: &Node, state: &mut State)
//@ tracing: yes
//@ panics: diverge
//@ cells@state: adjust_heights_heap
//@ rule R5: `self.add_parent_without_adjusting_heights(child_index, parent_ref, state);` => `self.add_parent_without_adjusting_heights(child_index, parent_ref, &*state);` x1
//@ rule R5: `let rch = &state.recompute_heap;` => `` x1
//@ rule R5: `ah_heap.adjust_heights(rch, ` => `ah_heap.adjust_heights(&state.recompute_heap, ` x1
//@ rule R8: `state.recompute_heap.insert(` => `state.heap.insert__reached(` x*
//@ props: C05 C06 C11 C19
//@ contract:
//@|     requires
//@|         node_necessary(parent_ref),
//@|         forall|a: &NodeRef, b: &NodeRef| walk_originals(a, b) <==> (**a == *self && **b == *parent_ref),
//@|         !node_in_heap(parent_ref), node_never_computed(parent_ref) || edge_stale(self, parent_ref),
//@|     ensures false, // [a-newly-linked-parent-that-never-ran-or-missed-a-change-of-this-child-is-always-queued]
//@end
}


// ---- the scope of a bind (src/kind/bind.rs, impl BindScope for BindNode): nodes created on the rhs take their
//      minimum height, validity and necessity from the right node of the bind.  R5 on the BindNode's cells. ----
//@extract struct BindNodeS
//@ file: src/kind/bind.rs
//@ name: BindNode
//@ cells: lhs_change, main, all_nodes_created_on_rhs
//@ drop_fields: id_lhs_change, lhs, mapper, rhs, rhs_scope
//@ rule R8: `struct BindNode` => `struct BindNodeS` x1
//@ rule R8: `pub lhs_change: WeakNode` => `pub lhs_change: MaybeDeadWeak` x1
//@ rule R8: `pub main: WeakNode` => `pub main: MaybeDeadWeak` x1
//@end

impl BindNodeS {
//@extract fn BindNode::scope_height
//@ file: src/kind/bind.rs
//@ impl: impl BindScope for BindNode
//@ name: height
//@ as: fn height(&self) -> (r: i32)
//@ cells: lhs_change, main
//@ props: C11 C19
//@ contract:
//@|     requires mdw_target(&self.lhs_change) is Some,
//@|     ensures r == node_height(&*mdw_target(&self.lhs_change).unwrap()), // [a-bind-scope-is-as-high-as-its-lhs-change-node-so-rhs-nodes-sit-above-it]
//@end

//@extract fn BindNode::scope_is_valid
//@ file: src/kind/bind.rs
//@ impl: impl BindScope for BindNode
//@ name: is_valid
//@ as: fn is_valid(&self) -> (r: bool)
//@ cells: lhs_change, main
//@ props: C11 C19
//@ contract:
//@|     ensures r == (mdw_target(&self.main) is Some && node_valid(&*mdw_target(&self.main).unwrap())), // [a-bind-scope-is-valid-iff-its-main-node-is-alive-and-valid]
//@end

//@extract fn BindNode::scope_is_necessary
//@ file: src/kind/bind.rs
//@ impl: impl BindScope for BindNode
//@ name: is_necessary
//@ as: fn is_necessary(&self) -> (r: bool)
//@ cells: lhs_change, main
//@ props: C05 C11 C19
//@ contract:
//@|     ensures r == (mdw_target(&self.main) is Some && node_necessary(&*mdw_target(&self.main).unwrap())), // [a-bind-scope-is-necessary-iff-its-main-node-is]
//@end

//@extract fn BindNode::scope_add_node
//@ file: src/kind/bind.rs
//@ impl: impl BindScope for BindNode
//@ name: add_node
//@ as: fn add_node(&mut self, node: WeakNode)
//@ cells: all_nodes_created_on_rhs
//@ tracing: yes
//@ props: C11 C19
//@ contract:
//@|     ensures final(self).all_nodes_created_on_rhs@ == old(self).all_nodes_created_on_rhs@.push(node), // [every-node-created-in-the-scope-is-remembered-for-invalidation-and-height-adjustment]
//@end
}

} // verus!
fn main() {}
