// Unit heightwalk (C19): the walk that restores child<parent heights after an edge is added
// (AdjustHeightsHeap::adjust_heights, Node::ensure_parent_height_requirements, Node::adjust_heights_bind_lhs_change).
// Only call-site obligations are decided here: every step of the walk hands the *same* (original_child,
// original_parent) pair, in that order, to ensure_height_requirement - which is what cycle detection compares against.
// The heap operations themselves are verified in unit `heaps`; here they are opaque.
use vstd::prelude::*;
use std::rc::Rc;

verus! {

//@include vx_prelude.rs

#[verifier::external_body]
pub struct Node { _p: u8 }
pub type NodeRef = Rc<Node>;
#[verifier::external_body]
pub struct WeakNode { _p: u8 }
impl WeakNode {
    #[verifier::external_body]
    pub fn upgrade(&self) -> (r: Option<NodeRef>) ensures r is Some { unimplemented!() }   // parents / rhs nodes of a necessary node are alive
}
#[verifier::external_body]
pub struct RecomputeHeap { _p: u8 }
impl RecomputeHeap {
    #[verifier::external_body]
    pub fn increase_height(&self, node: &NodeRef) { unimplemented!() }
}
#[verifier::external_body]
pub struct BindNode { _p: u8 }

/// permission predicate: the (original_child, original_parent) pair the current walk was started with
pub uninterp spec fn walk_originals(oc: &NodeRef, op: &NodeRef) -> bool;

pub struct AdjustHeightsHeap { pub height_lower_bound: i32 }
impl AdjustHeightsHeap {
    #[verifier::external_body]
    fn is_empty(&self) -> bool { unimplemented!() }
    #[verifier::external_body]
    fn remove_min(&mut self) -> Option<NodeRef> { unimplemented!() }
    /// verified in unit `heaps`; here: it must be told the originals of the walk, in this order
    #[verifier::external_body]
    fn ensure_height_requirement(&mut self, original_child: &NodeRef, original_parent: &NodeRef, child: &NodeRef, parent: &NodeRef)
        requires walk_originals(original_child, original_parent),
    { unimplemented!() }
}

impl Node {
    #[verifier::external_body]
    fn height(&self) -> i32 { unimplemented!() }
    #[verifier::external_body]
    fn is_in_recompute_heap(&self) -> bool { unimplemented!() }
    #[verifier::external_body]
    fn is_necessary(&self) -> bool { unimplemented!() }
    #[verifier::external_body]
    fn packed(&self) -> NodeRef { unimplemented!() }
    #[verifier::external_body]
    fn parents(&self) -> (r: &Vec<WeakNode>) { unimplemented!() }
    #[verifier::external_body]
    fn rhs_nodes_if_bind_lhs_change(&self) -> (r: Option<&Vec<WeakNode>>) { unimplemented!() }
    #[verifier::external_body]
    fn id(&self) -> u64 { unimplemented!() }

//@extract fn Node::ensure_parent_height_requirements
//@ file: src/node.rs
//@ impl: impl ErasedNode for Node
//@ name: ensure_parent_height_requirements
//@ as: fn ensure_parent_height_requirements(&self, ahh: &mut AdjustHeightsHeap, original_child: &NodeRef, original_parent: &NodeRef)
//@ attr: #[verifier::exec_allows_no_decreases_clause]
//@ rule R5: `self.parents.borrow()` => `self.parents()` x1
//@ props: C19
//@ contract:
//@|     requires forall|a: &NodeRef, b: &NodeRef| walk_originals(a, b) <==> (a == original_child && b == original_parent),
//@|     // [every-parent-edge-is-checked-against-the-originals-of-this-walk-in-order]
//@ loop 0:
//@|     invariant forall|a: &NodeRef, b: &NodeRef| walk_originals(a, b) <==> (a == original_child && b == original_parent),
//@end

//@extract fn Node::adjust_heights_bind_lhs_change
//@ file: src/node.rs
//@ impl: impl ErasedNode for Node
//@ name: adjust_heights_bind_lhs_change
//@ as: fn adjust_heights_bind_lhs_change(&self, ahh: &mut AdjustHeightsHeap, oc: &NodeRef, op: &NodeRef)
//@ attr: #[verifier::exec_allows_no_decreases_clause]
//@ tracing: yes
//@ rule R5 re: `if let Some\(Kind::BindLhsChange \{ bind, \.\. \}\) = self\.kind\(\)` => `if let Some(vx_rhs_nodes) = self.rhs_nodes_if_bind_lhs_change()` x1
//@ rule R5: `let all = bind.all_nodes_created_on_rhs.borrow();` => `let all = vx_rhs_nodes;` x1
//@ props: C19
//@ contract:
//@|     requires forall|a: &NodeRef, b: &NodeRef| walk_originals(a, b) <==> (a == oc && b == op),
//@|     // [every-bind-scope-edge-is-checked-against-the-originals-of-this-walk-in-order]
//@ loop 0:
//@|     invariant forall|a: &NodeRef, b: &NodeRef| walk_originals(a, b) <==> (a == oc && b == op),
//@end
}

impl AdjustHeightsHeap {
//@extract fn AdjustHeightsHeap::adjust_heights
//@ file: src/adjust_heights_heap.rs
//@ impl: impl AdjustHeightsHeap
//@ name: adjust_heights
//@ as: fn adjust_heights(&mut self, rch: &RecomputeHeap, original_child: NodeRef, original_parent: NodeRef)
//@ attr: #[verifier::exec_allows_no_decreases_clause]
//@ tracing: yes
//@ cfg: release
//@ props: C19
//@ contract:
//@|     requires forall|a: &NodeRef, b: &NodeRef| walk_originals(a, b) <==> (*a == original_child && *b == original_parent),
//@|     // [the-walk-starts-at-the-new-edge-and-hands-the-same-originals-to-every-step]  (release variant: the four
//@|     //  debug assertions of this function are graph facts that are not decided here)
//@ loop 0:
//@|     invariant forall|a: &NodeRef, b: &NodeRef| walk_originals(a, b) <==> (*a == original_child && *b == original_parent),
//@end
}

} // verus!
fn main() {}
