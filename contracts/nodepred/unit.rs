// Unit nodepred (C06 staleness gate, C05 necessity): the read-only predicates of Node (src/node.rs) that decide
// whether a node is (re)computed, and Cutoff::should_cutoff (src/cutoff.rs).
use vstd::prelude::*;
use std::rc::Rc;
use std::cell::Cell;

verus! {

//@include vx_prelude.rs

//@extract struct StabilisationNum
//@ file: src/stabilisation_num.rs
//@ name: StabilisationNum
//@ derives: Copy, Clone, PartialEq, Eq
//@ contract:
//@| #[derive(Structural)]
//@end

impl StabilisationNum {
//@extract fn StabilisationNum::is_never
//@ file: src/stabilisation_num.rs
//@ impl: impl StabilisationNum
//@ name: is_never
//@ as: fn is_never(&self) -> (r: bool)
//@ props: C05 C06
//@ contract:
//@|     ensures r == (self.0 == -1), // [never-is-minus-one]
//@end
}

// ---- trusted stand-ins: the payloads of Kind are opaque except for what the predicates read ----
#[verifier::external_body]
pub struct OpaqueKind { _p: u8 }
/// dyn ErasedVariable: only its set_at stamp is read
pub struct VarStamp { pub set_at: StabilisationNum }
impl VarStamp {
    #[verifier::external_body]
    pub fn set_at(&self) -> (r: StabilisationNum) ensures r == self.set_at { unimplemented!() }
}
/// ExpertNode: only its force_stale latch is read (R5: Cell<bool> erased)
pub struct ExpertLatch { pub force_stale: bool }
/// &Cell<StabilisationNum> returned by the recomputed_at()/changed_at() accessors of another node
pub struct StampCell { pub v: StabilisationNum }
impl StampCell {
    #[verifier::external_body]
    pub fn get(&self) -> (r: StabilisationNum) ensures r == self.v { unimplemented!() }
}
#[verifier::external_body]
pub struct WeakNode { _p: u8 }
impl WeakNode {
    #[verifier::external_body]
    pub fn upgrade(&self) -> Option<NodeRef> { unimplemented!() }
}
#[verifier::external_body]
pub struct ScopeStandIn { _p: u8 }
impl ScopeStandIn {
    #[verifier::external_body]
    pub fn height(&self) -> (r: i32) ensures r < 0x7fff_fff0 { unimplemented!() }
}
/// nodes created on the rhs of a bind (invalidate_nodes_created_on_rhs): opaque here
#[verifier::external_body]
pub fn vx_invalidate_rhs_nodes_of(bind: &Rc<OpaqueKind>, state: &State) { unimplemented!() }
#[verifier::external_body]
pub struct ObserverMap { _p: u8 }
pub uninterp spec fn obs_len(m: &ObserverMap) -> nat;
impl ObserverMap {
    #[verifier::external_body]
    pub fn is_empty(&self) -> (r: bool) ensures r == (obs_len(self) == 0) { unimplemented!() }
}
/// the engine state as far as became_unnecessary touches it: a statistics counter (foreign Cell) and opaque callees
pub struct CounterCell { pub v: usize }
impl CounterCell {
    #[verifier::external_body]
    pub fn increment(&self) { unimplemented!() }
}
#[verifier::external_body]
pub struct HeapHandle { _p: u8 }
impl HeapHandle {
    /// R8: RecomputeHeap::remove by the part of its debug assertion that is about membership
    #[verifier::external_body]
    pub fn remove(&self, node: NodeRef) requires node.height_in_recompute_heap >= 0 { unimplemented!() }
}
/// the part of State that handle_after_stabilisation touches (R5 on the `state` parameter)
pub struct StateHAS { pub handle_after_stabilisation: Vec<WeakNode> }
pub uninterp spec fn weak_of_node(n: &Node) -> WeakNode;

#[verifier::external_body]
pub struct StackGuard { _p: u8 }
impl StackGuard {
    #[verifier::external_body]
    pub fn push(&mut self, w: WeakNode) { unimplemented!() }
}
#[verifier::external_body]
pub struct InvalidityStack { _p: u8 }
impl InvalidityStack {
    #[verifier::external_body]
    pub fn borrow_mut(&self) -> StackGuard { unimplemented!() }
}
pub struct StampCellS { pub v: StabilisationNum }
impl StampCellS {
    #[verifier::external_body]
    pub fn get(&self) -> (r: StabilisationNum) ensures r == self.v { unimplemented!() }
}
pub struct State { pub num_nodes_became_unnecessary: CounterCell, pub num_nodes_changed: CounterCell, pub num_nodes_invalidated: CounterCell, pub num_nodes_recomputed: CounterCell,
                   pub stabilisation_num: StampCellS, pub recompute_heap: HeapHandle, pub propagate_invalidity: InvalidityStack }
impl State {
    #[verifier::external_body]
    pub fn set_height(&self, node: NodeRef, height: i32) { unimplemented!() }
}
/// permission predicate: which expert payload may have which edge callback run now (call-site obligation)
pub uninterp spec fn may_run_edge_callback(e: &ExpertLatch, child_index: int) -> bool;
impl ExpertLatch {
    #[verifier::external_body]
    pub fn observability_change(&self, is_now_observable: bool) { unimplemented!() }
    /// ExpertNode::run_edge_callback (unit `expert`); here: on whom and for which edge it is invoked
    #[verifier::external_body]
    pub fn run_edge_callback(&self, child_index: i32)
        requires may_run_edge_callback(self, child_index as int),
    { unimplemented!() }
    #[verifier::external_body]
    pub fn run_edge_callback__reached(&self, child_index: i32)
        requires may_run_edge_callback(self, child_index as int),
        ensures false,
    { unimplemented!() }
}

//@extract enum Kind
//@ file: src/kind.rs
//@ name: Kind
//@ rule R8: `SmallBox<dyn ValueInternal>` => `OpaqueKind` x1
//@ rule R8: `SmallBox<dyn KindTrait>` => `OpaqueKind` x1
//@ rule R8: `Rc<dyn ErasedVariable>` => `Rc<VarStamp>` x1
//@ rule R8 re: `\bmap::\w+` => `OpaqueKind` x8
//@ rule R8: `Rc<bind::BindNode>` => `Rc<OpaqueKind>` x2
//@ rule R8: `lhs_change: NodeRef` => `lhs_change: Rc<OpaqueKind>` x1
//@ rule R8: `expert::ExpertNode` => `ExpertLatch` x1
//@end

/// the node, as far as the predicates read it (R5: Cells / RefCells erased; all receivers stay `&self`,
/// so a write in any function below is a type error, i.e. exit 2)
pub struct Node {
    pub is_valid: bool,
    pub _kind: Kind,
    pub recomputed_at: StabilisationNum,
    pub changed_at: StabilisationNum,
    pub parents: Vec<WeakNode>,
    pub observers: ObserverMap,
    pub force_necessary: bool,
    pub height_in_recompute_heap: i32,
    pub num_on_update_handlers: i32,
    pub is_in_handle_after_stabilisation: bool,
    pub value_opt: Option<OpaqueKind>,
    pub created_in: ScopeStandIn,
    pub changed_at_cell: StampCell,
    pub recomputed_at_cell: StampCell,
}
pub type NodeRef = Rc<Node>;

/// "some input changed after this node last ran": the specification of is_stale_with_respect_to_a_child, left
/// uninterpreted: the fold over the children (any_child) is not under contract, its per-child test is (below).
pub uninterp spec fn stale_wrt_a_child(n: &Node) -> bool;

impl Node {
    spec fn wf(&self) -> bool { self.changed_at_cell.v == self.changed_at && self.recomputed_at_cell.v == self.recomputed_at }

    #[verifier::external_body]
    fn changed_at(&self) -> (r: &StampCell) ensures r == &self.changed_at_cell { unimplemented!() }
    #[verifier::external_body]
    fn recomputed_at(&self) -> (r: &StampCell) ensures r == &self.recomputed_at_cell { unimplemented!() }
    #[verifier::external_body]
    fn is_stale_with_respect_to_a_child(&self) -> (r: bool) ensures r == stale_wrt_a_child(self) { unimplemented!() }
    #[verifier::external_body]
    fn maybe_handle_after_stabilisation(&self, state: &State) { unimplemented!() }
    #[verifier::external_body]
    fn weak__has(&self) -> (r: WeakNode) ensures r == weak_of_node(self) { unimplemented!() }
    #[verifier::external_body]
    fn add_parent(&self, child_index: i32, parent_ref: &Node) { unimplemented!() }
    #[verifier::external_body]
    fn became_necessary(&self, state: &State) { unimplemented!() }
    #[verifier::external_body]
    fn weak(&self) -> WeakNode { unimplemented!() }
    spec fn expert_payload(&self) -> Option<&ExpertLatch> {
        if self.is_valid { match &self._kind { Kind::Expert(e) => Some(e), _ => None } } else { None }
    }
    #[verifier::external_body]
    fn remove_children(&self, state: &State) { unimplemented!() }
    #[verifier::external_body]
    fn packed(&self) -> (r: NodeRef) ensures *r == *self { unimplemented!() }

    spec fn necessary(&self) -> bool { self.parents@.len() > 0 || obs_len(&self.observers) > 0 || self.force_necessary }
    spec fn stale(&self) -> bool {
        self.is_valid && match self._kind {
            Kind::Var(var) => var.set_at.0 > self.recomputed_at.0,
            Kind::Constant(_) => self.recomputed_at.0 == -1,
            Kind::Expert(e) => e.force_stale || self.recomputed_at.0 == -1 || stale_wrt_a_child(self),
            _ => self.recomputed_at.0 == -1 || stale_wrt_a_child(self),
        }
    }

//@extract fn Node::is_valid
//@ file: src/node.rs
//@ impl: impl ErasedNode for Node
//@ name: is_valid
//@ as: fn is_valid(&self) -> (r: bool)
//@ cells: is_valid
//@ contract:
//@|     ensures r == self.is_valid,
//@end

//@extract fn Node::kind
//@ file: src/node.rs
//@ impl: impl Node
//@ name: kind
//@ as: fn kind(&self) -> (r: Option<&Kind>)
//@ contract:
//@|     ensures r == (if self.is_valid { Some(&self._kind) } else { None }),
//@end

//@extract closure Node::is_stale_with_respect_to_a_child::per_child_test
//@ file: src/node.rs
//@ impl: impl ErasedNode for Node
//@ name: is_stale_with_respect_to_a_child
//@ anchor: `self\.any_child\(\s*&(\|[\s\S]*\})\s*\)\s*\}$`
//@ params: `_ix, child`
//@ as: fn child_makes_stale(&self, vx_p0: i32, vx_p1: NodeRef) -> (r: bool)
//@ cells: recomputed_at
//@ tracing: yes
//@ stamps: recomputed_at, changed_at, last_run
//@ props: C05 C06
//@ contract:
//@|     requires vx_p1.wf(),
//@|     ensures r == (vx_p1.changed_at.0 > self.recomputed_at.0), // [an-input-makes-its-dependant-stale-iff-it-changed-strictly-after-the-dependant-last-ran]
//@end

//@extract fn Node::edge_is_stale
//@ file: src/node.rs
//@ impl: impl ErasedNode for Node
//@ name: edge_is_stale
//@ as: fn edge_is_stale(&self, parent: &Node) -> (r: bool)
//@ cells: changed_at
//@ rule R8 re: `self\.changed_at\s*(>=|<=|==|!=|>|<)\s*parent\.recomputed_at\(\)\.get\(\)` => `self.changed_at.0 \1 parent.recomputed_at().get().0` x1
//@ props: C05 C06
//@ contract:
//@|     requires parent.wf(),
//@|     ensures r == (self.changed_at.0 > parent.recomputed_at.0), // [edge-stale-iff-child-changed-strictly-after-parent-ran]
//@end

//@extract fn Node::is_stale
//@ file: src/node.rs
//@ impl: impl ErasedNode for Node
//@ name: is_stale
//@ as: fn is_stale(&self) -> (r: bool)
//@ cells: recomputed_at, force_stale
//@ cells@e: force_stale
//@ stamps: set_at, recomputed_at, changed_at, last_run
//@ props: C05 C06
//@ contract:
//@|     ensures r == self.stale(), // [stale-iff-never-run-or-an-input-or-the-variable-changed-since-or-forced]
//@end

//@extract fn Node::is_necessary
//@ file: src/node.rs
//@ impl: impl ErasedNode for Node
//@ name: is_necessary
//@ as: fn is_necessary(&self) -> (r: bool)
//@ cells: parents, observers, force_necessary
//@ props: C05 C11
//@ contract:
//@|     ensures r == self.necessary(), // [necessary-iff-it-has-a-dependant-or-an-observer-or-is-forced]
//@end

//@extract fn Node::needs_to_be_computed
//@ file: src/node.rs
//@ impl: impl ErasedNode for Node
//@ name: needs_to_be_computed
//@ as: fn needs_to_be_computed(&self) -> (r: bool)
//@ props: C05 C06
//@ contract:
//@|     ensures r == (self.necessary() && self.stale()), // [computed-only-if-necessary-and-stale]
//@end

//@extract fn Node::is_in_recompute_heap
//@ file: src/node.rs
//@ impl: impl ErasedNode for Node
//@ name: is_in_recompute_heap
//@ as: fn is_in_recompute_heap(&self) -> (r: bool)
//@ cells: height_in_recompute_heap
//@ props: C05 C11
//@ contract:
//@|     ensures r == (self.height_in_recompute_heap >= 0), // [queued-iff-it-has-a-heap-height]
//@end

//@extract fn Node::became_unnecessary
//@ file: src/node.rs
//@ impl: impl ErasedNode for Node
//@ name: became_unnecessary
//@ as: fn became_unnecessary(&self, state: &State)
//@ tracing: yes
//@ props: C05 C11
//@ contract:
//@|     requires !self.necessary(),
//@|     // [teardown-never-panics]: the debug assertion !needs_to_be_computed() and the precondition of
//@|     // RecomputeHeap::remove (the node is queued) are obligations
//@end

//@extract fn Node::became_unnecessary!must_dequeue
//@ file: src/node.rs
//@ impl: impl ErasedNode for Node
//@ name: became_unnecessary
//@ as: fn became_unnecessary__queued_node_is_dequeued(&self, state: &State)
//@ tracing: yes
//@ panics: diverge
//@ rule R8 re: `\w+\s*\.\s*recompute_heap\s*\.\s*remove\((?:[^()]|\([^()]*\))*\)` => `vx_diverge()` x1
//@ props: C05 C11
//@ contract:
//@|     requires !self.necessary(), self.height_in_recompute_heap >= 0,
//@|     ensures false, // [a-node-that-becomes-unnecessary-while-queued-always-leaves-the-recompute-heap]
//@end

//@extract fn Node::add_parent_without_adjusting_heights
//@ file: src/node.rs
//@ impl: impl ErasedNode for Node
//@ name: add_parent_without_adjusting_heights
//@ as: fn add_parent_without_adjusting_heights(&self, child_index: i32, parent_ref: &Node, state: &State)
//@ props: C11 C14
//@ contract:
//@|     requires
//@|         parent_ref.necessary(),
//@|         // an edge callback may only be run on the *parent's* expert payload, for the edge just linked:
//@|         forall|e: &ExpertLatch, i: int| may_run_edge_callback(e, i) <==> (parent_ref.expert_payload() == Some(e) && i == child_index),
//@|     // [linking-runs-only-the-new-parents-callback-for-this-edge]
//@end

//@extract fn Node::add_parent_without_adjusting_heights!must
//@ file: src/node.rs
//@ impl: impl ErasedNode for Node
//@ name: add_parent_without_adjusting_heights
//@ as: fn add_parent_without_adjusting_heights__expert_parent_hears_of_the_new_edge(&self, child_index: i32, parent_ref: &Node, state: &State)
//@ panics: diverge
//@ rule R8: `expert.run_edge_callback(child_index)` => `expert.run_edge_callback__reached(child_index)` x*
//@ props: C11 C14
//@ contract:
//@|     requires
//@|         parent_ref.necessary(),
//@|         parent_ref.expert_payload() is Some,           // the new parent is a (valid) expert node
//@|         forall|e: &ExpertLatch, i: int| may_run_edge_callback(e, i) <==> (parent_ref.expert_payload() == Some(e) && i == child_index),
//@|     ensures false, // [linking-a-child-under-an-expert-node-always-runs-that-edges-callback-on-the-parent]
//@end

//@extract fn Node::handle_after_stabilisation
//@ file: src/node.rs
//@ impl: impl ErasedNode for Node
//@ name: handle_after_stabilisation
//@ as: fn handle_after_stabilisation__real(&mut self, state: &mut StateHAS)
//@ cells: is_in_handle_after_stabilisation
//@ cells@state: handle_after_stabilisation
//@ rule R5: `let is_in_stack = &self.is_in_handle_after_stabilisation;` => `` x1
//@ rule R5: `!is_in_stack.get()` => `!self.is_in_handle_after_stabilisation` x1
//@ rule R5: `is_in_stack.set(true);` => `self.is_in_handle_after_stabilisation = true;` x1
//@ rule R8: `stack.push(self.weak());` => `stack.push(self.weak__has());` x1
//@ props: C09
//@ contract:
//@|     ensures
//@|         final(self).is_in_handle_after_stabilisation, // [the-node-is-marked-as-queued-for-its-handlers]
//@|         final(state).handle_after_stabilisation@ == (if old(self).is_in_handle_after_stabilisation { old(state).handle_after_stabilisation@ } else { old(state).handle_after_stabilisation@.push(weak_of_node(final(self))) }), // [queued-exactly-once-per-stabilisation]
//@|         final(self).num_on_update_handlers == old(self).num_on_update_handlers && final(self).changed_at == old(self).changed_at, // [frame]
//@end

//@extract fn Node::maybe_handle_after_stabilisation
//@ file: src/node.rs
//@ impl: impl ErasedNode for Node
//@ name: maybe_handle_after_stabilisation
//@ as: fn maybe_handle_after_stabilisation__real(&mut self, state: &mut StateHAS)
//@ cells: num_on_update_handlers
//@ rule R5: `self.handle_after_stabilisation(state);` => `self.handle_after_stabilisation__real(state);` x1
//@ props: C09
//@ contract:
//@|     ensures
//@|         old(self).num_on_update_handlers > 0 ==> final(self).is_in_handle_after_stabilisation
//@|             && final(state).handle_after_stabilisation@ == (if old(self).is_in_handle_after_stabilisation { old(state).handle_after_stabilisation@ } else { old(state).handle_after_stabilisation@.push(weak_of_node(final(self))) }), // [a-node-with-handlers-is-queued-once]
//@|         old(self).num_on_update_handlers <= 0 ==> final(state).handle_after_stabilisation@ == old(state).handle_after_stabilisation@ && final(self).is_in_handle_after_stabilisation == old(self).is_in_handle_after_stabilisation, // [a-node-without-handlers-is-not-queued]
//@end

//@extract fn Node::maybe_change_value_manual@prefix
//@ file: src/node.rs
//@ impl: impl Node
//@ name: maybe_change_value_manual
//@ as: fn maybe_change_value_manual(&mut self, old_value_opt: Option<&OpaqueKind>, did_change: bool, run_child_changed: bool, state: &State) -> (r: Option<NodeRef>)
//@ cells: changed_at
//@ cut_before: let parents = 
//@ props: C06 C09
//@ contract:
//@|     ensures
//@|         did_change ==> final(self).changed_at == state.stabilisation_num.v, // [a-result-the-cutoff-did-not-suppress-is-stamped-with-this-stabilisation]
//@|         final(self).recomputed_at == old(self).recomputed_at && final(self).is_valid == old(self).is_valid, // [frame]
//@|     // only the prefix up to queueing the node for its handlers is under contract; that the stamp is left alone when
//@|     // !did_change rests on frame/changed_at-written-only-on-change-or-invalidation (a single writer in this function)
//@end

//@extract fn Node::maybe_change_value_manual@prefix!must_queue
//@ file: src/node.rs
//@ impl: impl Node
//@ name: maybe_change_value_manual
//@ as: fn maybe_change_value_manual__a_changed_node_is_queued_for_its_handlers(&mut self, old_value_opt: Option<&OpaqueKind>, did_change: bool, run_child_changed: bool, state: &State) -> (r: Option<NodeRef>)
//@ cells: changed_at
//@ cut_before: let parents = 
//@ panics: diverge
//@ rule R8 re: `self\s*\.\s*maybe_handle_after_stabilisation\(\s*\w+\s*\)` => `vx_diverge()` x*
//@ props: C06 C09
//@ contract:
//@|     requires did_change,
//@|     ensures false, // [whichever-recompute-path-reports-a-change-the-node-is-queued-for-its-update-handlers]
//@end

//@extract fn Node::recompute_one@prefix
//@ file: src/node.rs
//@ impl: impl ErasedNode for Node
//@ name: recompute_one
//@ as: fn recompute_one(&mut self, state: &State) -> (r: Option<NodeRef>)
//@ cells: recomputed_at
//@ cfg: release
//@ cut_before: match kind {
//@ props: C06
//@ contract:
//@|     requires old(self).is_valid,
//@|     ensures
//@|         final(self).recomputed_at == state.stabilisation_num.v, // [a-node-that-runs-is-stamped-as-run-in-this-stabilisation-before-its-function-is-called]
//@|         final(self).changed_at == old(self).changed_at && final(self).is_valid == old(self).is_valid, // [frame]
//@end

//@extract fn Node::recompute_one@prefix!invalid
//@ file: src/node.rs
//@ impl: impl ErasedNode for Node
//@ name: recompute_one
//@ as: fn recompute_one__an_invalid_node_is_never_run(&mut self, state: &State) -> (r: Option<NodeRef>)
//@ cells: recomputed_at
//@ cfg: release
//@ cut_before: match kind {
//@ panics: diverge
//@ props: C06
//@ contract:
//@|     requires !old(self).is_valid,
//@|     ensures false, // [recomputing-an-invalid-node-panics-before-any-user-function-runs]
//@end

//@extract fn Node::invalidate_node
//@ file: src/node.rs
//@ impl: impl ErasedNode for Node
//@ name: invalidate_node
//@ as: fn invalidate_node(&mut self, state: &State)
//@ attr: #[verifier::exec_allows_no_decreases_clause]
//@ cells: is_valid, value_opt, changed_at, recomputed_at, parents
//@ tracing: yes
//@ rule R8 re: `if let Some\(Kind::BindMain \{ bind, \.\. \}\) = self\.kind\(\) \{\s*let mut all = bind\.all_nodes_created_on_rhs\.borrow_mut\(\);\s*invalidate_nodes_created_on_rhs\(&mut all, state\);\s*\}` => `if let Some(Kind::BindMain { bind, .. }) = self.kind() { vx_invalidate_rhs_nodes_of(bind, state); }` x1
//@ rule R8: `drop(prop_stack);` => `` x1
//@ props: C05 C06 C09 C11 C14
//@ contract:
//@|     requires old(self).is_valid ==> (!old(self).necessary() || true),
//@|     ensures
//@|         !final(self).is_valid, // [an-invalidated-node-reports-itself-invalid]
//@|         old(self).is_valid ==> final(self).value_opt is None, // [and-has-no-value]
//@|         old(self).is_valid ==> final(self).changed_at == state.stabilisation_num.v && final(self).recomputed_at == state.stabilisation_num.v, // [stamped-so-dependants-are-stale-and-it-is-not]
//@|         !old(self).is_valid ==> final(self).changed_at == old(self).changed_at && final(self).recomputed_at == old(self).recomputed_at && final(self).value_opt == old(self).value_opt, // [invalidating-twice-is-a-no-op]
//@ loop 0:
//@|     invariant !self.is_valid, self.value_opt is None, self.changed_at == state.stabilisation_num.v, self.recomputed_at == state.stabilisation_num.v,
//@end

//@extract fn Node::invalidate_node!must_release_children
//@ file: src/node.rs
//@ impl: impl ErasedNode for Node
//@ name: invalidate_node
//@ attr: #[verifier::exec_allows_no_decreases_clause]
//@ cells: is_valid, value_opt, changed_at, recomputed_at, parents
//@ tracing: yes
//@ panics: diverge
//@ rule R8 re: `if let Some\(Kind::BindMain \{ bind, \.\. \}\) = self\.kind\(\) \{\s*let mut all = bind\.all_nodes_created_on_rhs\.borrow_mut\(\);\s*invalidate_nodes_created_on_rhs\(&mut all, state\);\s*\}` => `if let Some(Kind::BindMain { bind, .. }) = self.kind() { vx_invalidate_rhs_nodes_of(bind, state); }` x*
//@ rule R8: `drop(prop_stack);` => `` x*
//@ as: fn invalidate_node__a_necessary_node_releases_its_children(&mut self, state: &State)
//@ rule R8 re: `self\s*\.\s*remove_children\(\s*\w+\s*\)` => `vx_diverge()` x*
//@ props: C05 C06 C09 C11 C14
//@ contract:
//@|     requires old(self).is_valid, old(self).necessary(),
//@|     ensures false, // [an-invalidated-node-that-is-necessary-for-whatever-reason-releases-its-children]
//@ loop? 0:
//@|     invariant true,
//@end

//@extract fn Node::invalidate_node!must_dequeue
//@ file: src/node.rs
//@ impl: impl ErasedNode for Node
//@ name: invalidate_node
//@ attr: #[verifier::exec_allows_no_decreases_clause]
//@ cells: is_valid, value_opt, changed_at, recomputed_at, parents
//@ tracing: yes
//@ panics: diverge
//@ rule R8 re: `if let Some\(Kind::BindMain \{ bind, \.\. \}\) = self\.kind\(\) \{\s*let mut all = bind\.all_nodes_created_on_rhs\.borrow_mut\(\);\s*invalidate_nodes_created_on_rhs\(&mut all, state\);\s*\}` => `if let Some(Kind::BindMain { bind, .. }) = self.kind() { vx_invalidate_rhs_nodes_of(bind, state); }` x*
//@ rule R8: `drop(prop_stack);` => `` x*
//@ as: fn invalidate_node__a_queued_node_is_dequeued(&mut self, state: &State)
//@ rule R8 re: `\w+\s*\.\s*recompute_heap\s*\.\s*remove\((?:[^()]|\([^()]*\))*\)` => `vx_diverge()` x*
//@ props: C05 C06 C09 C11 C14
//@ contract:
//@|     requires old(self).is_valid, old(self).height_in_recompute_heap >= 0,
//@|     ensures false, // [an-invalidated-node-that-is-queued-always-leaves-the-recompute-heap]
//@ loop? 0:
//@|     invariant self.height_in_recompute_heap >= 0,
//@end

//@extract fn Node::check_if_unnecessary
//@ file: src/node.rs
//@ impl: impl ErasedNode for Node
//@ name: check_if_unnecessary
//@ as: fn check_if_unnecessary(&self, state: &State)
//@ props: C05 C11
//@ contract:
//@|     // [teardown-only-for-unnecessary-nodes]: became_unnecessary requires !necessary()
//@end

//@extract fn Node::check_if_unnecessary!must
//@ file: src/node.rs
//@ impl: impl ErasedNode for Node
//@ name: check_if_unnecessary
//@ as: fn check_if_unnecessary__unnecessary_node_is_torn_down(&self, state: &State)
//@ panics: diverge
//@ rule R8 re: `self\s*\.\s*became_unnecessary\(\s*\w+\s*\)` => `vx_diverge()` x1
//@ props: C05 C11
//@ contract:
//@|     requires !self.necessary(),
//@|     ensures false, // [a-node-that-lost-its-last-dependant-and-observer-is-always-torn-down]
//@end
}


// ---- cutoffs (src/cutoff.rs): every kind, consulted with (old, new) in that order ----------------------
// R8: the function pointer / boxed closure payloads become closure type parameters; R4: T := u64.
//@extract enum Cutoff
//@ file: src/cutoff.rs
//@ name: Cutoff
//@ rule R8: `Cutoff<T: ?Sized>` => `Cutoff<F1, F2>` x1
//@ rule R8: `Fn(fn(&T, &T) -> bool)` => `Fn(F1)` x1
//@ rule R8: `FnBoxed(Box<dyn CutoffClosure<T>>)` => `FnBoxed(F2)` x1
//@end

impl<F1: Fn(&u64, &u64) -> bool, F2: FnMut(&u64, &u64) -> bool> Cutoff<F1, F2> {
//@extract fn Cutoff::should_cutoff
//@ file: src/cutoff.rs
//@ impl: impl<T: ?Sized> Cutoff<T>
//@ name: should_cutoff
//@ as: fn should_cutoff(&mut self, a: &u64, b: &u64) -> (r: bool)
//@ props: C06
//@ contract:
//@|     requires
//@|         // a function cutoff may only ever be called with (old, new) in that order:
//@|         forall|f: F1, x: &u64, y: &u64| call_requires(f, (x, y)) <==> (*x == *a && *y == *b),
//@|         forall|f: F2, x: &u64, y: &u64| call_requires(f, (x, y)) <==> (*x == *a && *y == *b),
//@|     ensures
//@|         *old(self) is Always ==> r, // [Always-never-propagates]
//@|         *old(self) is Never ==> !r, // [Never-always-propagates]
//@|         *old(self) is PartialEq ==> r == (*a == *b), // [default-cutoff-suppresses-exactly-equal-values]
//@|         (*old(self) matches Cutoff::Fn(f) ==> call_ensures(f, (a, b), r)), // [fn-cutoff-decides]
//@end
}


// (ErasedCutoff::should_cutoff / ErasedCutoff::new forward (a, b) through a Box<dyn FnMut>: calls through `&mut F` are outside the
//  verifier's closure model; their argument order is pinned by frame obligation C06/frame/erased-cutoff-forwards-old-then-new.)

} // verus!
fn main() {}
