// ---- trusted std specifications shared by units (each one is listed as an assumption in evidence) ----
pub assume_specification<T>[ core::mem::replace ](dest: &mut T, src: T) -> (r: T)
    ensures *final(dest) == src, r == *old(dest);

pub assume_specification<T>[ core::mem::drop ](x: T);

pub assume_specification<T>[ <[T]>::swap ](s: &mut [T], a: usize, b: usize)
    requires a < old(s)@.len(), b < old(s)@.len(),
    ensures final(s)@ == old(s)@.update(a as int, old(s)@[b as int]).update(b as int, old(s)@[a as int]);
