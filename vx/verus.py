"""Run Verus on a generated file and turn its diagnostics into named obligations."""
import json
import os
import re
import subprocess
import time

VERUS = os.environ.get('VX_VERUS', 'verus')

DEFINITE = (
    'postcondition not satisfied',
    'precondition not satisfied',
    'assertion failed',
    'invariant not satisfied',
    'loop invariant',
    'possible arithmetic underflow/overflow',
    'possible division by zero',
    'index out of bounds',
    'decreases not satisfied',
    'unreachable',
    'possible bit shift underflow/overflow',
    'recommendation not met',
    'could not prove termination',
    'cannot show invariant holds',
    'invariant not satisfied at end of loop body',
    'invariant not satisfied before loop',
    'fails to satisfy',
    'callee.requires',
)
UNDECIDED = ('resource limit', 'rlimit', 'timed out', 'solver')


def run(path, seed=None, rlimit=None, threads=None, extra=None, timeout=900):
    cmd = [VERUS, os.path.basename(path), '--output-json', '--error-format=json', '--time']
    if seed is not None:
        cmd += ['--smt-option', 'smt.random_seed=%d' % seed, '--smt-option', 'sat.random_seed=%d' % seed]
    if rlimit is not None:
        cmd += ['--rlimit', str(rlimit)]
    if threads is not None:
        cmd += ['--num-threads', str(threads)]
    if extra:
        cmd += extra
    t0 = time.time()
    try:
        p = subprocess.run(cmd, cwd=os.path.dirname(path), capture_output=True, text=True, timeout=timeout)
        out, err, rc = p.stdout, p.stderr, p.returncode
    except subprocess.TimeoutExpired as e:
        out, err, rc = (e.stdout or ''), (e.stderr or '') + '\nvx: verus timed out', 124
        if isinstance(out, bytes):
            out = out.decode(errors='replace')
        if isinstance(err, bytes):
            err = err.decode(errors='replace')
    wall = time.time() - t0
    diags = []
    for ln in err.split('\n'):
        ln = ln.strip()
        if ln.startswith('{') and '"$message_type"' in ln:
            try:
                diags.append(json.loads(ln))
            except ValueError:
                pass
    summary = None
    try:
        i = out.index('{')
        summary = json.loads(out[i:])
    except ValueError:
        summary = None
    return dict(cmd=' '.join(cmd), rc=rc, wall_s=wall, diags=diags, summary=summary, stderr=err, stdout=out)


def smt_times(summary):
    """per-function SMT time in ms from --time output."""
    res = {}
    try:
        for mod in summary['times-ms']['smt']['smt-run-module-times']:
            for f in mod.get('function-breakdown', []):
                res[f['function']] = dict(ms=f.get('time-micros', 0) / 1000.0, rlimit=f.get('rlimit'), success=f.get('success'))
    except (KeyError, TypeError):
        pass
    return res


def classify(diag):
    msg = diag.get('message', '')
    lvl = diag.get('level')
    if lvl != 'error':
        return None
    if msg.startswith('aborting due to'):
        return None
    low = msg.lower()
    if diag.get('code'):
        return 'tool'   # rustc error code => type / borrow / resolution error, never a proof failure
    for u in UNDECIDED:
        if u in low:
            return 'undecided'
    for d in DEFINITE:
        if d in low:
            return 'definite'
    return 'tool'   # type error, unsupported construct, ...


def spans(diag):
    res = []
    for s in diag.get('spans', []):
        res.append(dict(line=s['line_start'], col=s['column_start'], end_line=s['line_end'], primary=s.get('is_primary', False),
                        label=s.get('label') or '', text=(s.get('text') or [{}])[0].get('text', '').strip()))
    return res
