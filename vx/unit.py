"""Verify one unit: expand the template from /repo's working tree, run Verus on the generated file
and on its canary twin, and name every failure as an obligation."""
import json
import os
import re
import sys
import time

from . import template, verus
from .rsrc import AnchorLost, mask

ROOT = os.path.dirname(os.path.dirname(os.path.abspath(__file__)))
WORK = os.environ.get('VX_WORK') or os.path.join(ROOT, '.work')


def unit_path(unit):
    return os.path.join(ROOT, 'contracts', unit, 'unit.rs')


def load_template(unit):
    """unit.rs may `//@include other.rs` (relative to contracts/)."""
    def rd(p, depth=0):
        out = []
        for ln in open(p).read().split('\n'):
            st = ln.strip()
            if st.startswith('//@include '):
                inc = os.path.join(ROOT, 'contracts', st.split(None, 1)[1].strip())
                out.append(rd(inc, depth + 1))
            else:
                out.append(ln)
        return '\n'.join(out)
    return rd(unit_path(unit))


def clause_table(meta):
    """Map generated line -> clause tag for the contract part of an extracted fn."""
    table = {}
    lines = meta['emitted'].split('\n')
    base = meta['gen_start']
    section = None
    counters = {}
    for i, ln in enumerate(lines[: meta.get('sig_lines', 1) + meta.get('contract_lines', 0) + 1]):
        st = ln.strip()
        mo = re.match(r'(requires|ensures|decreases|recommends|invariant|no_unwind)\b', st)
        if mo:
            section = mo.group(1)
            st = st[len(section):].strip()
        if not st or section is None:
            continue
        tag = re.search(r'//\s*\[([^\]]+)\]', ln)
        counters[section] = counters.get(section, 0) + 1
        name = tag.group(1) if tag else '%s#%d' % (section, counters[section])
        table[base + i] = (section, name)
    return table


def body_obligation_sites(meta):
    """Syntactic count of in-body obligation sites of an emitted fn (panic helpers, unwrap/expect,
    indexing, + - * arithmetic on machine ints is not counted: Verus checks it but we cannot
    enumerate it syntactically without types)."""
    txt = mask(meta['emitted'])
    sites = []
    for mo in re.finditer(r'\b(vx_panic|vx_assert|vx_diverge|vx_assert_or_diverge)\s*\(|\.(unwrap|expect)\s*\(|\w\s*\[[^\]]+\]', txt):
        ln = meta['gen_start'] + txt.count('\n', 0, mo.start())
        kind = mo.group(1) or mo.group(2) or 'index'
        sites.append((kind, ln))
    return sites


def locate(info, line):
    for ex in info['extracts']:
        if ex['gen_start'] <= line <= ex['gen_end']:
            return ('fn', ex)
    for lm in info['lemmas']:
        if lm['gen_start'] <= line <= lm['gen_end']:
            return ('lemma', lm)
    return (None, None)


def src_line_for(meta, gen_line, gen_text_lines):
    """Best-effort map of a generated line back to /repo: same stripped text inside the fn."""
    txt = gen_text_lines[gen_line - 1].strip() if 0 < gen_line <= len(gen_text_lines) else ''
    if not txt:
        return meta['line']
    src = template.read_repo(meta['file']).split('\n')
    lo, hi = meta['line'] - 1, meta.get('end_line', meta['line'])
    for k in range(lo, min(hi, len(src))):
        if src[k].strip() == txt:
            return k + 1
    # fuzzy: longest common token prefix
    key = re.sub(r'\W+', ' ', txt).split()[:3]
    for k in range(lo, min(hi, len(src))):
        if all(w in src[k] for w in key) and key:
            return k + 1
    return meta['line']


def name_failures(unit, info, res, gen_text):
    """Turn Verus error diagnostics into obligation records."""
    lines = gen_text.split('\n')
    out = []
    for d in res['diags']:
        cls = verus.classify(d)
        if cls is None:
            continue
        sp = verus.spans(d)
        msg = d.get('message', '')
        prim = [s for s in sp if s['primary']] or sp
        where = prim[0]['line'] if prim else 0
        kind, obj = locate(info, where)
        # some errors carry the function only in a secondary span
        if kind is None:
            for s in sp:
                kind, obj = locate(info, s['line'])
                if kind:
                    where = s['line']
                    break
        rec = dict(cls=cls, message=msg, gen_line=where, rendered=d.get('rendered', ''))
        if kind == 'fn':
            table = clause_table(obj)
            clause = None
            for s in sp:
                if s['line'] in table and ('failed' in s['label'] or s['primary']):
                    clause = table[s['line']]
                    break
            if clause is None:
                for s in sp:
                    if s['line'] in table:
                        clause = table[s['line']]
                        break
            low = msg.lower()
            if 'postcondition' in low and clause:
                ob = '%s' % clause[1]
            elif 'precondition' in low:
                site = prim[0]
                callee = re.search(r'(\w+(?:::\w+)*)\s*\($', site['text'][: max(0, site['col'] - 1)] + '(') if False else None
                ob = 'call@%s' % re.sub(r'\s+', ' ', site['text'])[:70]
            elif 'invariant' in low:
                ob = 'loop-invariant@%s' % re.sub(r'\s+', ' ', prim[0]['text'])[:70]
            elif 'assertion' in low:
                ob = 'assert@%s' % re.sub(r'\s+', ' ', prim[0]['text'])[:70]
            elif 'overflow' in low or 'underflow' in low:
                ob = 'arith@%s' % re.sub(r'\s+', ' ', prim[0]['text'])[:70]
            else:
                ob = '%s@%s' % (re.sub(r'\W+', '-', low)[:30], re.sub(r'\s+', ' ', prim[0]['text'] if prim else '')[:60])
            rec.update(obligation='%s/%s/%s' % (unit, obj['id'], ob), fn=obj['id'], props=obj.get('props', []),
                       file=obj['file'], src_line=src_line_for(obj, prim[0]['line'] if prim else where, lines),
                       fn_line=obj['line'], n_loops=obj['n_loops'])
        elif kind == 'lemma':
            rec.update(obligation='%s/lemma/%s' % (unit, obj['name']), fn=None, lemma=obj['name'], props=[], file=None, src_line=None)
        else:
            rec.update(obligation='%s/?/line%d' % (unit, where), fn=None, props=[], file=None, src_line=None)
        out.append(rec)
    return out


def enumerate_obligations(unit, info):
    """Every obligation this unit generates (named), measured from the expanded file."""
    obs = []
    for ex in info['extracts']:
        if ex['kind'] != 'fn' or ex.get('external_body'):
            continue
        table = clause_table(ex)
        for ln, (section, name) in sorted(table.items()):
            if section in ('ensures',):
                obs.append('%s/%s/%s' % (unit, ex['id'], name))
        emitted_mask = mask(ex['emitted'])
        n_inv = 0
        for mo in re.finditer(r'\binvariant\b', emitted_mask):
            n_inv += 1
            obs.append('%s/%s/loop-invariant#%d' % (unit, ex['id'], n_inv))
        for k, (kind, ln) in enumerate(body_obligation_sites(ex)):
            obs.append('%s/%s/%s#%d' % (unit, ex['id'], kind, k + 1))
        obs.append('%s/%s/body-safety(arith,call-preconditions)' % (unit, ex['id']))
    for lm in info['lemmas']:
        obs.append('%s/lemma/%s' % (unit, lm['name']))
    return obs


def verify(unit, seed=None, rlimit=None, canary=True, keep=True):
    """Returns dict(status, failures, obligations, info, timing...).  status in ok|fail|undecided."""
    os.makedirs(os.path.join(WORK, unit), exist_ok=True)
    t0 = time.time()
    tpl = load_template(unit)
    template._inline_allow.clear()
    template._inline_all[0] = False
    path = os.path.join(WORK, unit, '%s.rs' % unit)
    for attempt in (0, 1, 2):
        try:
            gen, info = template.generate(tpl, canary=False)
        except AnchorLost as e:
            if not template._inline_all[0]:
                # a statement a rewrite rule is keyed on may have moved into a private helper: splice helpers in, once
                template._inline_all[0] = True
                try:
                    gen, info = template.generate(tpl, canary=False)
                except AnchorLost:
                    template._inline_all[0] = False
                    return dict(unit=unit, status='undecided', reason='anchor lost: %s' % e, failures=[], obligations=[], info=None, wall_s=time.time() - t0)
            else:
                return dict(unit=unit, status='undecided', reason='anchor lost: %s' % e, failures=[], obligations=[], info=None, wall_s=time.time() - t0)
        open(path, 'w').write(gen)
        res = verus.run(path, seed=seed, rlimit=rlimit)
        # rule R3h on demand: a method / associated function of `self` that the unit has no text for (a statement was
        # moved into a new private helper) is inlined from the same source file, and the unit is verified again
        unknown = set()
        for d in res['diags']:
            msg = d.get('message', '') if isinstance(d, dict) else ''
            mo = re.search(r'no (?:method|associated function or constant|function or associated item) named `(\w+)` found', msg)
            if mo:
                unknown.add(mo.group(1))
        unknown -= template._inline_allow
        if not unknown:
            break
        template._inline_allow.update(unknown)
    fails = name_failures(unit, info, res, gen)
    obligations = enumerate_obligations(unit, info)
    summ = res['summary'] or {}
    vr = summ.get('verification-results', {})
    status = 'ok'
    reason = ''
    if res['rc'] != 0 or not vr.get('success', False):
        kinds = set(f['cls'] for f in fails)
        if not fails:
            status, reason = 'undecided', 'verus failed without a mappable diagnostic (rc=%s): %s' % (res['rc'], res['stderr'][-2000:])
        elif 'tool' in kinds:
            status, reason = 'undecided', 'tool/type error: ' + '; '.join(f['message'] for f in fails if f['cls'] == 'tool')[:1500]
        elif kinds == {'undecided'}:
            status, reason = 'undecided', 'resource limit'
        else:
            status = 'fail'
    out = dict(unit=unit, status=status, reason=reason, failures=fails, obligations=obligations, info=info,
               verified=vr.get('verified'), errors=vr.get('errors'), cmd=res['cmd'], wall_s=res['wall_s'],
               smt=verus.smt_times(summ), gen_path=path, gen_sha=None, canary=None)
    if canary and status == 'ok':
        try:
            cgen, cinfo = template.generate(tpl, canary=True)
        except AnchorLost as e:
            out.update(status='undecided', reason='anchor lost in canary: %s' % e)
            return out
        cpath = os.path.join(WORK, unit, '%s_canary.rs' % unit)
        open(cpath, 'w').write(cgen)
        cres = verus.run(cpath, seed=seed, rlimit=3, extra=['--multiple-errors', '1'])
        cfails = name_failures(unit, cinfo, cres, cgen)
        tool = [f for f in cfails if f['cls'] == 'tool']
        err_lines = []
        for d in cres['diags']:
            if verus.classify(d) in ('definite', 'undecided'):
                err_lines += [sp['line'] for sp in verus.spans(d)]
        expected, accepted = [], []
        for tw in cinfo['twins']:
            expected.append(tw['id'])
            if not any(tw['gen_start'] <= l <= tw['gen_end'] for l in err_lines):
                accepted.append(tw['id'])
        for lm in cinfo['lemmas']:
            if lm['name'].endswith('__canary'):
                expected.append('lemma:' + lm['name'][:-8])
                if not any(lm['gen_start'] <= l <= lm['gen_end'] for l in err_lines):
                    accepted.append('lemma:' + lm['name'][:-8])
        out['canary'] = dict(expected=len(expected), rejected=len(expected) - len(accepted), accepted=accepted,
                             wall_s=cres['wall_s'], tool_errors=[f['message'] for f in tool][:5])
        if tool:
            out.update(status='undecided', reason='canary file did not type-check: %s' % tool[0]['message'])
        elif accepted:
            out.update(status='undecided', reason='VACUITY: canary accepted for %s (contradictory requires or trusted spec)' % accepted)
    out['wall_total_s'] = time.time() - t0
    return out


def main(argv):
    unit = argv[1]
    r = verify(unit, canary='--no-canary' not in argv)
    print('unit %s: %s  verified=%s errors=%s  %.1fs  %s' % (unit, r['status'], r.get('verified'), r.get('errors'), r.get('wall_s', 0), r.get('reason', '')[:3000]))
    for f in r['failures']:
        print('--', f['cls'], f['obligation'], '(src %s:%s)' % (f.get('file'), f.get('src_line')))
        print(f['rendered'])
    if r.get('canary'):
        print('canary:', {k: v for k, v in r['canary'].items()})
    print('obligations enumerated:', len(r['obligations']))
    if '--list' in argv:
        for o in r['obligations']:
            print('   ', o)


if __name__ == '__main__':
    main(sys.argv)
