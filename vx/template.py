"""Template expansion: a unit is a Verus file (contracts/<unit>/unit.rs) in which every function
under contract appears as an `//@extract` block.  The block names the real function in /repo and
carries the contract; the body is copied from /repo's working tree on every run and rewritten
only by the generic rules of vx.rules plus the block's own (counted) rewrites."""
import hashlib
import difflib
import os
import re

from . import rsrc, rules
from .rsrc import AnchorLost, mask

REPO = os.environ.get('VX_REPO', '/repo')


class Extract:
    def __init__(self, kind, ident):
        self.kind = kind          # fn | struct | enum
        self.id = ident
        self.file = None
        self.impl = None
        self.name = None
        self.nth = None
        self.as_sig = None
        self.cells = []
        self.cells_at = []      # (recv, [fields])
        self.cellalias = []     # (name, path, field)
        self.tracing = False
        self.loop_index = 0
        self.stamps = []            # names (fields / locals) of StabilisationNum type: rule R4s
        self.tail = None              # loopbody: expression appended as the value of the emitted function (e.g. `Ok(())`)
        self.loop_containing = None   # regex: the innermost loop whose header+body matches (instead of an ordinal)
        self.panics = 'obligation'
        self.cfg = 'debug'
        self.rules = []           # (label, regex?, pat, rep, count)
        self.contract = ''
        self.loops = {}
        self.body_from = None     # reuse: nothing
        self.props = []
        self.keep_vis = False
        self.external_body = False  # emit signature+contract only (callee represented by contract)
        self.drop_fields = []
        self.derives = []
        self.cut_before = False
        self.optional_loops = set()
        self.anchor = None
        self.params = None
        self.no_release_variant = False
        self.cut_after = None
        self.attrs = []
        self.must_calls = []      # (tag, regex, when)          -> variant `ensures false` with the call followed by a diverging helper
        self.never_calls = []     # (tag, regex, when)          -> variant with the call preceded by `vx_forbidden()`
        self.orders = []          # (tag, regexA, regexB, when) -> variant: A diverges, B forbidden: every B is preceded by an A
        # outputs
        self.meta = {}


_VARIANT = re.compile(r'^(must_call|never_call|order)\s+([\w-]+)\s*:\s*`(.*?)`(?:\s+before\s+`(.*?)`)?(?:\s+when\s+`(.*?)`)?\s*$')
_RULE = re.compile(r'^rule\s+(\S+?)(\s+re)?\s*:\s*`(.*?)`\s*=>\s*`(.*?)`(?:\s+x(\d+|\*))?\s*$')


def parse(template_text):
    """Returns list of segments: ('text', str, first_template_line) | ('extract', Extract, line)."""
    segs = []
    lines = template_text.split('\n')
    i = 0
    buf, buf_start = [], 1
    while i < len(lines):
        ln = lines[i]
        st = ln.strip()
        if st.startswith('//@defaults'):
            tname = st.split()[1]
            i += 1
            dl = []
            while i < len(lines) and not lines[i].strip().startswith('//@end'):
                dl.append(lines[i].strip()[3:].strip())
                i += 1
            _defaults.setdefault(tname, []).extend(dl)
            i += 1
            continue
        if st.startswith('//@extract'):
            if buf:
                segs.append(('text', '\n'.join(buf), buf_start))
                buf = []
            parts = st.split()
            ex = Extract(parts[1], parts[2])
            start_line = i + 1
            i += 1
            cur = None  # current payload target
            while i < len(lines):
                s2 = lines[i].strip()
                if s2.startswith('//@end'):
                    break
                if s2.startswith('//@|'):
                    payload = lines[i].split('//@|', 1)[1]
                    if payload.startswith(' '):
                        payload = payload[1:]
                    if cur == 'contract':
                        ex.contract += payload + '\n'
                    elif isinstance(cur, tuple):
                        ex.loops[cur[1]] = ex.loops.get(cur[1], '') + payload + '\n'
                    else:
                        raise ValueError('payload without target at template line %d' % (i + 1))
                elif s2.startswith('//@'):
                    d = s2[3:].strip()
                    cur = None
                    if d.startswith('contract:'):
                        cur = 'contract'
                    elif d.startswith('loop? '):
                        n = int(d[6:].rstrip(':').strip())
                        ex.optional_loops.add(n)
                        cur = ('loop', n)
                    elif d.startswith('loop '):
                        cur = ('loop', int(d[5:].rstrip(':').strip()))
                    elif d.startswith(('must_call ', 'never_call ', 'order ')):
                        mo = _VARIANT.match(d)
                        if not mo:
                            raise ValueError('bad variant directive at template line %d: %s' % (i + 1, d))
                        kind_, tag, a, b, when = mo.group(1), mo.group(2), mo.group(3), mo.group(4), mo.group(5)
                        if kind_ == 'order':
                            if b is None:
                                raise ValueError('order needs `A` before `B` at template line %d' % (i + 1))
                            ex.orders.append((tag, a, b, when))
                        elif kind_ == 'must_call':
                            ex.must_calls.append((tag, a, when))
                        else:
                            ex.never_calls.append((tag, a, when))
                    elif d.startswith('rule'):
                        mo = _RULE.match(d)
                        if not mo:
                            raise ValueError('bad rule at template line %d: %s' % (i + 1, d))
                        cnt = mo.group(5)
                        cnt = None if cnt in (None, '*') else int(cnt)
                        anyc = mo.group(5) == '*'
                        ex.rules.append((mo.group(1), bool(mo.group(2)), mo.group(3), mo.group(4), cnt, anyc))
                    else:
                        k, _, v = d.partition(':')
                        k, v = k.strip(), v.strip()
                        if k == 'file':
                            ex.file = v
                        elif k == 'impl':
                            ex.impl = v
                        elif k == 'name':
                            ex.name = v
                        elif k == 'nth':
                            ex.nth = int(v)
                        elif k == 'as':
                            ex.as_sig = v
                        elif k == 'cells':
                            ex.cells = [x.strip() for x in v.split(',') if x.strip()]
                        elif k.startswith('cells@'):
                            ex.cells_at.append((k[6:].strip(), [x.strip() for x in v.split(',') if x.strip()]))
                        elif k == 'cellalias':
                            nm, _, path = v.partition('=')
                            path = path.strip()
                            ex.cellalias.append((nm.strip(), path.rsplit('.', 1)[0], path.rsplit('.', 1)[1]))
                        elif k == 'tracing':
                            ex.tracing = v in ('yes', 'true', '1', '')
                        elif k == 'panics':
                            ex.panics = v
                        elif k == 'cfg':
                            ex.cfg = v
                        elif k == 'props':
                            ex.props = v.split()
                        elif k == 'anchor':
                            ex.anchor = v.strip('`')
                        elif k == 'params':
                            ex.params = v.strip('`')
                        elif k == 'stamps':
                            ex.stamps = [x.strip() for x in v.split(',') if x.strip()]
                        elif k == 'loop_index':
                            ex.loop_index = int(v)
                        elif k == 'tail':
                            ex.tail = v.strip('`')
                        elif k == 'loop_containing':
                            ex.loop_containing = v.strip('`')
                        elif k == 'cut_after':
                            ex.cut_after = v.strip('`')
                        elif k == 'cut_before':
                            ex.cut_after = v.strip('`')
                            ex.cut_before = True
                        elif k == 'no_release_variant':
                            ex.no_release_variant = True
                        elif k == 'external_body':
                            ex.external_body = True
                        elif k == 'derives':
                            ex.derives = [x.strip() for x in v.split(',') if x.strip()]
                        elif k == 'attr':
                            ex.attrs.append(v)
                        elif k == 'drop_fields':
                            ex.drop_fields = [x.strip() for x in v.split(',') if x.strip()]
                        else:
                            raise ValueError('unknown directive %r at template line %d' % (k, i + 1))
                else:
                    raise ValueError('non-directive line inside //@extract at template line %d' % (i + 1))
                i += 1
            segs.append(('extract', ex, start_line))
            i += 1
            buf_start = i + 1
        else:
            if not buf:
                buf_start = i + 1
            buf.append(ln)
            i += 1
    if buf:
        segs.append(('text', '\n'.join(buf), buf_start))
    segs = _expand_variants(segs)
    # unit-wide R5: the cells declared on a struct's extract apply to every method extracted from an impl of that
    # struct; `//@defaults TYPE` blocks add cellalias / tolerant rules to every fn extract of an impl of TYPE.
    struct_cells = {}
    for kind, ex, _ in segs:
        if kind == 'extract' and ex.kind == 'struct' and ex.cells:
            struct_cells[ex.name] = list(ex.cells)
    for kind, ex, _ in segs:
        if kind != 'extract' or ex.kind not in ('fn', 'closure', 'loopbody') or not ex.impl:
            continue
        tnames = re.findall(r'[A-Za-z_]\w*', ex.impl)
        for t in tnames:
            if t in struct_cells and (ex.cells or ex.as_sig and '&mut self' in ex.as_sig):
                for c in struct_cells[t]:
                    if c not in ex.cells:
                        ex.cells.append(c)
            for d in _defaults.get(t, []):
                k, _, v = d.partition(':')
                k, v = k.strip(), v.strip()
                if k == 'cellalias':
                    nm, _, path = v.partition('=')
                    path = path.strip()
                    item = (nm.strip(), path.rsplit('.', 1)[0], path.rsplit('.', 1)[1])
                    if item not in ex.cellalias and (ex.as_sig and '&mut self' in ex.as_sig):
                        ex.cellalias.append(item)
                elif d.startswith('rule'):
                    mo = _RULE.match(d)
                    if mo:
                        cnt = mo.group(5)
                        ex.rules.append((mo.group(1), bool(mo.group(2)), mo.group(3), mo.group(4), None if cnt in (None, '*') else int(cnt), cnt == '*'))
    return segs


def _base_requires(contract):
    m = mask(contract)
    mo = re.search(r'\bensures\b', m)
    head = contract[:mo.start()] if mo else contract
    hm = mask(head)
    mr = re.search(r'\brequires\b', hm)
    if not mr:
        return ''
    body = head[mr.end():]
    bm = hm[mr.end():]
    # comments are dropped (a generated clause is appended after the last real one)
    body = ''.join(ch if (mk != ' ' or ch in ' \t\n') else ' ' for ch, mk in zip(body, bm))
    return '\n'.join(l.rstrip() for l in body.split('\n') if l.strip()).rstrip()


def _expand_variants(segs):
    """must_call / never_call / order directives: each yields one more extract of the same function (same text, same
    rules) whose contract is generated: see Extract.  The rewritten call sites are located by regex over the extracted
    text; they keep the real call and add a helper next to it."""
    import copy
    out = []
    for seg in segs:
        out.append(seg)
        kind, ex, line = seg
        if kind != 'extract' or not (ex.must_calls or ex.never_calls or ex.orders):
            continue
        if not ex.as_sig:
            raise ValueError('%s: must_call/never_call/order need an `as:` signature' % ex.id)
        base = _base_requires(ex.contract).rstrip()
        if base and not mask(base).rstrip().endswith(','):
            base = base + ','

        def variant(suffix, rules, when, ensures_false, tag):
            v = copy.deepcopy(ex)
            v.must_calls, v.never_calls, v.orders = [], [], []
            v.id = '%s!%s' % (ex.id, suffix)
            v.as_sig = re.sub(r'\bfn\s+(\w+)', lambda q: 'fn %s__%s' % (q.group(1), re.sub(r'\W', '_', suffix)), ex.as_sig, count=1)
            v.panics = 'diverge'
            v.rules = list(ex.rules) + rules
            v.loops = {}
            req = base + (' ' + when + ',' if when else '')
            v.contract = ('    requires %s\n' % req if req.strip() else '') + ('    ensures false, // [%s]\n' % tag if ensures_false else '    // [%s]\n' % tag)
            return ('extract', v, line)
        for (tag, rx, when) in ex.must_calls:
            out.append(variant('must_' + tag, [('R8v', True, rx, '\x00vx_diverge(); ', None, True)], when, True, tag))
        for (tag, rx, when) in ex.never_calls:
            out.append(variant('never_' + tag, [('R8v', True, rx, 'vx_forbidden(); \x00', None, True)], when, False, tag))
        for (tag, a, b, when) in ex.orders:
            out.append(variant('order_' + tag, [('R8v', True, b, 'vx_forbidden(); \x00', None, True), ('R8v', True, a, '\x00vx_diverge(); ', None, True)], when, False, tag))
    return out


_inline_all = [False]
_inline_allow = set()     # helper names the verifier reported as unknown on the first attempt (R3h is applied to these only)
_known_fns = set()        # every fn the unit has text for (stubs, extracts): calls of other same-file helpers are inlined (R3h)
_files = {}
_struct_cells = {}      # struct name -> cells declared on its //@extract struct block (unit-wide R5 for its methods)
_defaults = {}          # type name -> list of (kind, payload) default directives for its fn extracts


def read_repo(rel):
    if rel not in _files:
        p = os.path.join(REPO, rel)
        if not os.path.exists(p):
            raise AnchorLost('source file missing: %s' % rel)
        _files[rel] = open(p).read()
    return _files[rel]


def _apply_rules(ex, text, fired, skip_handles=False):
    for (label, is_re, pat, rep, cnt, anyc) in ex.rules:
        if label == 'R5h' and skip_handles:
            continue
        if label == 'R5h':
            # handle threading: the statement that re-derives a handle (group 1 = the local's name) is dropped and the
            # local is renamed to the parameter that carries the handle in the `as:` signature
            mm = mask(text)
            hits = list(re.finditer(pat, mm))
            if len(hits) != (cnt if cnt is not None else len(hits)) or not hits:
                if anyc:
                    fired.append('%s:%s x0' % (label, pat[:40]))
                    continue
                raise AnchorLost("rewrite '%s': expected %s match(es), found %d" % (pat, cnt, len(hits)))
            for h in reversed(hits):
                name = text[h.start(1):h.end(1)]
                text = text[:h.start()] + text[h.end():]
                if name != rep:
                    text = ''.join(rules._sub_ident(text, mask(text), name, rep))
            fired.append('%s:%s x%d' % (label, pat[:40], len(hits)))
            continue
        if label == 'R8v':
            before, after = rep.split('\x00')
            text, n = rules.wrap_calls(text, pat, before, after)
        elif anyc:
            try:
                text, n = rules.apply_literal(text, pat, rep, None, is_re)
            except AnchorLost:
                n = 0
        if anyc:
            if n == 0 and ('vx_diverge' in rep or 'vx_forbidden' in rep):
                # a must-call / must-not-call rewrite found no call site.  If the callee's name still occurs in the
                # function, the call is there in a form the pattern does not recognise: undecided, never a violation.
                # key: the callee with its immediate receiver, e.g. `internal.disallow_future_use(` (a call of a
                # different function that happens to have the same name on another receiver is not "the same call")
                head = re.split(r'\\?\(', pat, 1)[0]
                segs = re.findall(r'[A-Za-z_]\w*', re.sub(r'\\[sSwWdDbB]', ' ', head))
                key = None
                if segs:
                    key = r'\s*\.\s*'.join(re.escape(x) for x in segs[-2:])
                if key and re.search(r'\b%s\s*\(' % key, mask(text)):
                    raise AnchorLost('%s: a call of `%s` is present but not in the form `%s`' % (ex.id, key, pat))
        elif ex.id.endswith('@release'):
            # auto-generated release variant: a rewrite that targets debug-only code has nothing to do there
            try:
                text, n = rules.apply_literal(text, pat, rep, cnt, is_re)
            except AnchorLost:
                if mask(text).count(pat) if not is_re else re.search(pat, mask(text)):
                    raise
                n = 0
        else:
            text, n = rules.apply_literal(text, pat, rep, cnt, is_re)
        fired.append('%s:%s x%d' % (label, pat if len(pat) < 40 else pat[:37] + '...', n))
    return text


def expand_extract(ex, canary=False):
    """Returns emitted text; fills ex.meta."""
    src = read_repo(ex.file)
    m = mask(src)
    fired = []
    if ex.kind in ('struct', 'enum', 'trait'):
        loc = rsrc.find_type(src, ex.kind, ex.name, m)
        orig = src[loc['start']:loc['body_close'] + 1]
        text = orig
        if ex.derives:
            # keep the listed derives of the real type if (and only if) the real type has them
            pre = src[max(0, loc['start'] - 400):loc['start']]
            dm = re.findall(r'#\[derive\(([^)]*)\)\]', pre.split('}')[-1])
            have = set(x.strip() for d in dm for x in d.split(','))
            missing = [d for d in ex.derives if d not in have]
            if missing:
                raise AnchorLost('%s %s no longer derives %s' % (ex.kind, ex.name, missing))
            text = '#[derive(%s)]\n' % ', '.join(ex.derives) + text
        text, n = rules.strip_attrs(text)
        if ex.cells:
            text, n = rules.r5_types(text, ex.cells)
            fired.append('R5 field types x%d' % n)
        for f in ex.drop_fields:
            mm = mask(text)
            mo = re.search(r'(?m)^[ \t]*(?:pub(?:\([a-z]+\))?\s+)?%s\s*:[^\n]*,[ \t]*\n' % re.escape(f), mm)
            if not mo:
                raise AnchorLost('drop_fields: %s not found in %s' % (f, ex.name))
            text = text[:mo.start()] + text[mo.end():]
            fired.append('drop field %s' % f)
        text = _apply_rules(ex, text, fired)
        # strip doc comments / comments inside type definitions? keep: harmless
        header = ex.contract
        # visibility is not semantics: extracted types are emitted `pub` so specs may mention their fields
        text = re.sub(r'^((?:#\[[^\n]*\]\n)*)(struct|enum|trait)\b', r'\1pub \2', text, count=1)
        emitted = header + text
        ex.meta = dict(id=ex.id, kind=ex.kind, file=ex.file, line=rsrc.line_of(src, loc['start']),
                       sha256=hashlib.sha256(orig.encode()).hexdigest(), rules=fired,
                       n_loops=0, orig=orig, emitted=emitted)
        return emitted
    loc = rsrc.find_fn(src, ex.name, ex.impl, m, ex.nth)
    sig = src[loc['start']:loc['body_open']].rstrip()
    body = src[loc['body_open']:loc['body_close'] + 1]
    orig = sig + ' ' + body
    if ex.kind == 'closure':
        # a closure literal inside fn `name`, located by `anchor` (regex, group 1 = the closure text `|params| body`),
        # emitted as a named fn with the same parameter patterns and the same body.
        bm = mask(body)
        hits = list(re.finditer(ex.anchor, bm))
        if len(hits) != 1:
            raise AnchorLost('%s: closure anchor matched %d times in fn %s' % (ex.id, len(hits), ex.name))
        ctext = body[hits[0].start(1):hits[0].end(1)]
        cm = mask(ctext)
        if not cm.startswith('|'):
            raise AnchorLost('%s: anchored text is not a closure: %r' % (ex.id, ctext[:40]))
        bar = cm.index('|', 1)
        params = rsrc.norm(ctext[1:bar])
        if ex.params is not None:
            want = len([x for x in rsrc.split_top_commas((ex.params, mask(ex.params))) if x.strip()])
            have = len([x for x in rsrc.split_top_commas((ctext[1:bar], cm[1:bar])) if x.strip()])
            if want != have:
                raise AnchorLost('%s: closure arity changed: %r (contract written for %r)' % (ex.id, params, ex.params))
        cbody = ctext[bar + 1:].strip()
        sig = '|' + ctext[1:bar] + '|'
        pats = [x.strip() for x in rsrc.split_top_commas((ctext[1:bar], cm[1:bar])) if x.strip()]
        lets = ' '.join('let %s = vx_p%d;' % (pt, i) for i, pt in enumerate(pats))
        body = '{ ' + lets + ' ' + cbody + ' }'
        orig = ctext
    if ex.kind == 'loopbody':
        # R7h: the body of loop number `loop_index` of fn `name`, emitted as a function of the loop variable:
        # `for PAT in ITER { BODY }` / `while let PAT = EXPR { BODY }`  ->  fn f(.., vx_item: T) { let PAT = vx_item; BODY }
        # with `continue` (of that loop) -> `return`.  What is dropped: the iteration itself (which items are visited);
        # what is kept: everything done for one item.  A `break` of that loop is not supported.
        lps = rsrc.loops(body)
        bm = mask(body)
        if ex.loop_containing:
            cands = []
            for (kw_, lbo_) in lps:
                lbc_ = rsrc.match_close(bm, lbo_)
                if re.search(ex.loop_containing, bm[kw_:lbc_ + 1]):
                    cands.append((lbc_ - kw_, kw_, lbo_))
            if not cands:
                # the loop (or the part of its body the anchor names) may have been moved into a private helper:
                # splice the same-file helpers in (rule R3h) and look again
                body2, inl = rules.r3_inline_helpers(body, src, _known_fns, ex.name)
                if inl:
                    body = body2
                    bm = mask(body)
                    lps = rsrc.loops(body)
                    for (kw_, lbo_) in lps:
                        lbc_ = rsrc.match_close(bm, lbo_)
                        if re.search(ex.loop_containing, bm[kw_:lbc_ + 1]):
                            cands.append((lbc_ - kw_, kw_, lbo_))
                    if cands:
                        fired.append('R3h helper(s) inlined to find the loop: %s' % ', '.join(inl))
            if not cands:
                raise AnchorLost('%s: no loop of fn %s contains `%s`' % (ex.id, ex.name, ex.loop_containing))
            _, kw, lbo = min(cands)
        else:
            if ex.loop_index >= len(lps):
                raise AnchorLost('%s: fn %s has %d loop(s), loop_index %d' % (ex.id, ex.name, len(lps), ex.loop_index))
            kw, lbo = lps[ex.loop_index]
        lbc = rsrc.match_close(bm, lbo)
        header = body[kw:lbo]
        hm = bm[kw:lbo]
        mo_for = re.match(r'for\s+(.*?)\s+in\s+', hm, re.S)
        mo_wl = re.match(r'while\s+let\s+(.*?)\s*=\s', hm, re.S)
        if mo_for:
            pat = header[mo_for.start(1):mo_for.end(1)]
        elif mo_wl:
            pat = header[mo_wl.start(1):mo_wl.end(1)].strip()
            # `while let Some(P) = next_item` runs its body once per item P
            if pat.startswith('Some(') and pat.endswith(')'):
                pat = pat[5:-1]
        else:
            raise AnchorLost('%s: loop %d of fn %s is neither `for PAT in` nor `while let PAT =`' % (ex.id, ex.loop_index, ex.name))
        inner, im = body[lbo + 1:lbc], bm[lbo + 1:lbc]
        nested = [(a, rsrc.match_close(im, b)) for (a, b) in rsrc.loops(inner, im)]
        out, last = [], 0
        for mo_c in re.finditer(r'\b(continue|break)\b', im):
            if any(a <= mo_c.start() <= b for (a, b) in nested):
                continue
            if mo_c.group(1) == 'break':
                raise AnchorLost('%s: `break` in the extracted loop body' % ex.id)
            out.append(inner[last:mo_c.start()])
            out.append('return %s' % ex.tail if ex.tail else 'return')
            last = mo_c.end()
        out.append(inner[last:])
        body = '{ let %s = vx_item; %s %s }' % (pat, ''.join(out), ex.tail or '')
        orig = body[kw:lbc + 1]
    if ex.kind == 'fn' and ex.as_sig:
        # R7p: the contract is written over the parameter names of the `as:` signature; if the real signature names a
        # parameter differently (a rename), the real name is bound to the contract's by position
        def _params(sig_text):
            sm_ = mask(sig_text)
            po_ = sm_.find('(', sm_.find('fn '))
            if po_ < 0:
                return None
            pc_ = rsrc.match_close(sm_, po_, '(', ')')
            ps_ = [x.strip() for x in rsrc.split_top_commas((sig_text[po_ + 1:pc_], sm_[po_ + 1:pc_])) if x.strip()]
            names_ = []
            for prm in ps_:
                if re.match(r'^(&\s*(\'\w+\s+)?(mut\s+)?)?self\b', prm):
                    continue
                mo_ = re.match(r'^(?:mut\s+)?([A-Za-z_]\w*)\s*:', prm)
                names_.append(mo_.group(1) if mo_ else None)
            return names_
        real_p, as_p = _params(sig), _params(ex.as_sig)
        if real_p is not None and as_p is not None and len(real_p) == len(as_p):
            binds = ['let %s = %s;' % (r_, a_) for r_, a_ in zip(real_p, as_p) if r_ and a_ and r_ != a_ and not r_.startswith('_')]
            if binds and set(r_ for r_ in real_p if r_) != set(a_ for a_ in as_p if a_) or any(r_ and a_ and r_ != a_ and r_ not in as_p for r_, a_ in zip(real_p, as_p)):
                pass
            # bind simultaneously (a permutation of the same names must not shadow itself)
            pairs = [(r_, a_) for r_, a_ in zip(real_p, as_p) if r_ and a_ and r_ != a_ and not r_.startswith('_')]
            if pairs:
                body = '{ let (%s,) = (%s,); %s }' % (', '.join(r_ for r_, _ in pairs), ', '.join(a_ for _, a_ in pairs), body)
                fired.append('R7p parameters bound by position: %s' % ', '.join('%s := %s' % pr for pr in pairs))
    if (_inline_allow or _inline_all[0]) and ex.kind in ('fn', 'loopbody'):
        # on demand only (unit.verify retries with the names the verifier could not resolve, or - after an anchor of a
        # rewrite rule was lost - with every same-file helper the unit has no text for)
        body, inl = rules.r3_inline_helpers(body, src, _known_fns - _inline_allow, ex.name, only=(None if _inline_all[0] else _inline_allow))
        if inl:
            fired.append('R3h helper(s) inlined: %s' % ', '.join(inl))
    n_loops_orig = len(rsrc.loops(body))
    text = body
    text, n = rules.strip_attrs(text)
    if n:
        fired.append('attrs x%d' % n)
    text, n = rules.r3_flatten_paths(text)
    if n:
        fired.append('R3p module paths flattened x%d' % n)
    text, n = rules.r1c_cfg(text, ex.cfg)
    if n:
        fired.append('R1c cfg=%s x%d' % (ex.cfg, n))
    # R2 is applied to every function (logging may be added to or removed from any of them without a semantic change)
    text, n = rules.r2_tracing(text)
    if n or ex.tracing:
        fired.append('R2 tracing x%d' % n)
    # handle renames (R5h) come first: the cell erasure below is keyed on the handle's name
    h_rules = [r for r in ex.rules if r[0] == 'R5h']
    if h_rules:
        import copy as _copy
        ex_h = _copy.copy(ex)
        ex_h.rules = h_rules
        text = _apply_rules(ex_h, text, fired)
    if ex.cells:
        text, n = rules.r5_cells(text, ex.cells)
        fired.append('R5 cells(%s) x%d' % (','.join(ex.cells), n))
    for (nm, path, field) in ex.cellalias:
        text, n = rules.r5_alias(text, nm, path, field)
        fired.append('R5 alias %s = %s.%s x%d' % (nm, path, field, n))
    for (recv, flds) in ex.cells_at:
        text, n = rules.r5_cells(text, flds, recv)
        fired.append('R5 cells@%s(%s) x%d' % (recv, ','.join(flds), n))
    mode = ex.panics
    text, n = rules.r6_panics(text, mode, ex.cfg)
    if n:
        fired.append('R6 panics=%s x%d' % (mode, n))
    text, n = rules.r7_loop_value(text)
    if n:
        fired.append('R7b loop-value x%d' % n)
    text, n = rules.r7_while_block_cond(text)
    if n:
        fired.append('R7f while-with-block-condition -> loop x%d' % n)
    text, n = rules.r7_let_else_continue(text)
    if n:
        fired.append('R7e let-else-continue -> if-let x%d' % n)
    text, n = rules.r7_eta_constructor(text)
    if n:
        fired.append('R7d eta-expanded constructor x%d' % n)
    text, n = rules.r7_map_or_literal(text)
    if n:
        fired.append('R7g map_or(literal, closure) -> match x%d' % n)
    text, n = rules.r7_closure_wildcard_param(text)
    if n:
        fired.append('R7i closure parameter `_` named x%d' % n)
    text, n = rules.r7_closure_tuple_param(text)
    if n:
        fired.append('R7c closure tuple parameter x%d' % n)
    if ex.stamps:
        text, n = rules.r4_stamp_compare(text, ex.stamps)
        fired.append('R4s stamp comparison x%d' % n)
    text = _apply_rules(ex, text, fired, skip_handles=True)
    if ex.cut_after:
        # R1c prefix: keep the statements up to and including the one containing the anchor; the remainder of the body
        # is explicitly not under contract and is represented by a call that returns an arbitrary value.
        mt = mask(text)
        hits = [i for i in range(len(mt)) if mt.startswith(ex.cut_after, i)]
        if len(hits) != 1:
            raise AnchorLost('%s: cut_after anchor %r matched %d times' % (ex.id, ex.cut_after, len(hits)))
        k, depth = hits[0], 0
        if ex.cut_before:
            # cut in front of the statement that starts at the anchor
            k = hits[0] - 1
        else:
            while k < len(mt):
                ch = mt[k]
                if ch in '([{':
                    depth += 1
                elif ch in ')]}':
                    depth -= 1
                elif ch == ';' and depth <= 0:
                    break
                k += 1
        prefix = text[:k + 1]
        pm = mask(prefix)
        open_braces = pm.count('{') - pm.count('}')
        text = prefix + '\n' + '}' * (open_braces - 1) + '\n    vx_rest_of_body_not_under_contract()\n}'
        fired.append('R1c prefix: body cut after `%s`' % ex.cut_after)
    # loop annotations
    lps = rsrc.loops(text)
    for ordinal in sorted(ex.loops, reverse=True):
        if ordinal >= len(lps):
            # the loop is gone (debug-only in a release variant, or removed by a change): its invariant is moot and the
            # function's postconditions decide; a failing *loop invariant* with a changed loop count is undecided (check)
            continue
            raise AnchorLost('%s: loop #%d not found (%d loops in extracted body)' % (ex.id, ordinal, len(lps)))
        kw, bo = lps[ordinal]
        text = text[:bo] + '\n' + ex.loops[ordinal].rstrip('\n') + '\n' + text[bo:]
    new_sig = ex.as_sig if ex.as_sig else sig
    contract = ex.contract
    if ex.external_body:
        emitted = '#[verifier::external_body]\n' + new_sig + '\n' + contract + '{ unimplemented!() }\n'
    else:
        emitted = new_sig + '\n' + contract + text + '\n'
    for a in ex.attrs:
        emitted = a + '\n' + emitted
    twin = None
    if canary and not ex.external_body:
        # twin: same body, name suffixed, postcondition `false` (must-panic variants: the diverging
        # helpers become no-ops instead).  The original is emitted unchanged so callers see the real contract.
        tsig = re.sub(r'\bfn\s+(\w+)', lambda q: 'fn ' + q.group(1) + '__canary', new_sig, count=1)
        if mode == 'diverge':
            # must-panic variant: its contract already ends in `false`; the vacuity question is whether its
            # `requires` (with the trusted specs in scope) is satisfiable, so the twin keeps the contract
            # and replaces the body by one that returns an arbitrary value: it must be rejected.
            # (never_call / order variants have no postcondition of their own: `false` is added)
            twin = tsig + '\n' + (contract if re.search(r'\bensures\s+false\b', mask(contract)) else canary_contract(contract)) + '{ vx_any() }\n'
        else:
            twin = tsig + '\n' + canary_contract(contract) + text + '\n'
        for a in ex.attrs:
            twin = a + '\n' + twin
    ex.meta = dict(id=ex.id, kind='fn', closure=(ex.kind == 'closure'), file=ex.file, line=rsrc.line_of(src, loc['start']),
                   end_line=rsrc.line_of(src, loc['body_close']),
                   sha256=hashlib.sha256(orig.encode()).hexdigest(), rules=fired,
                   n_loops=n_loops_orig, orig=orig, emitted=emitted, orig_sig=rsrc.norm(sig),
                   external_body=ex.external_body, panics=mode, cfg=ex.cfg,
                   sig_lines=new_sig.count('\n') + 1 + len(ex.attrs), contract_lines=contract.count('\n'), twin=twin)
    return emitted


def _after_ensures(m, pos):
    """insertion point after `ensures` and an optional `#![trigger ..]` attribute."""
    k = pos
    while k < len(m) and m[k] in ' \t\n':
        k += 1
    if m.startswith('#![', k):
        return rsrc.match_close(m, k + 2, '[', ']') + 1
    return pos


def canary_contract(contract):
    m = mask(contract)
    mo = re.search(r'\bensures\b', m)
    if mo:
        at = _after_ensures(m, mo.end())
        return contract[:at] + ' false,' + contract[at:]
    mo = re.search(r'\bdecreases\b', m)
    if mo:
        return contract[:mo.start()] + 'ensures false,\n' + contract[mo.start():]
    return contract + '    ensures false,\n'


def canary_lemmas(text):
    """In free template text: after every `proof fn` with an `ensures`, append a twin `NAME__canary`
    whose postcondition starts with `false`.  The original stays, so callers are unaffected."""
    out, last = [], 0
    m = mask(text)
    for mo in re.finditer(r'\bproof\s+fn\s+(\w+)', m):
        k, depth = mo.end(), 0
        while k < len(m):
            ch = m[k]
            if ch in '([':
                depth += 1
            elif ch in ')]':
                depth -= 1
            elif ch == '{' and depth == 0:
                break
            k += 1
        if k >= len(m):
            continue
        close = rsrc.match_close(m, k)
        hdr = m[mo.end():k]
        e = re.search(r'\bensures\b', hdr)
        if not e:
            continue
        pos = _after_ensures(m, mo.end() + e.end())
        name_end = mo.end()
        twin = 'proof fn ' + mo.group(1) + '__canary' + text[name_end:pos] + ' false,' + text[pos:close + 1]
        out.append(text[last:close + 1])
        out.append('\n' + twin + '\n')
        last = close + 1
    out.append(text[last:])
    return ''.join(out)


def find_lemmas(text, first_line):
    """(name, start_line, end_line) of every proof fn in a free text segment."""
    res = []
    m = mask(text)
    for mo in re.finditer(r'\bproof\s+fn\s+(\w+)', m):
        k, depth = mo.end(), 0
        while k < len(m):
            ch = m[k]
            if ch in '([':
                depth += 1
            elif ch in ')]':
                depth -= 1
            elif ch == '{' and depth == 0:
                break
            k += 1
        if k >= len(m):
            continue
        close = rsrc.match_close(m, k)
        hdr = m[mo.end():k]
        has_ens = re.search(r'\bensures\b', hdr) is not None
        res.append((mo.group(1), first_line + m.count('\n', 0, mo.start()), first_line + m.count('\n', 0, close), has_ens))
    return res


def find_trusted(text, first_line):
    """Trusted items in free text: external_body / assume_specification / assume( / admit(."""
    res = []
    m = mask(text)
    for mo in re.finditer(r'external_body|assume_specification|external_type_specification|external_fn_specification|\bassume\s*\(|\badmit\s*\(|uninterp\s+spec\s+fn|broadcast\s+axiom|\baxiom\s+fn', m):
        ln = first_line + m.count('\n', 0, mo.start())
        # describe by the next fn/struct/type name
        nxt = re.search(r'\b(fn|struct|enum|type)\s+(\w+)', m[mo.end():mo.end() + 400])
        what = mo.group(0).rstrip('(').strip()
        if what == 'assume_specification':
            br = re.search(r'\[\s*([^\]]+)\]', text[mo.end():mo.end() + 300])
            name = br.group(1).strip() if br else '?'
        else:
            name = nxt.group(2) if nxt else '?'
        res.append((what, name, ln))
    return res


def generate(template_text, canary=False):
    """Expand a template.  Returns (generated_text, info) with
    info = dict(extracts=[meta + gen_start/gen_end], lemmas=[...], trusted=[...])."""
    segs = parse(template_text)
    _known_fns.clear()
    _known_fns.update(re.findall(r'\bfn\s+(\w+)', template_text))
    _known_fns.update(re.findall(r'//@ name:\s*(\w+)', template_text))
    out_lines = 0
    out = []
    extracts, lemmas, trusted, twins = [], [], [], []
    for kind, payload, tline in segs:
        if kind == 'text':
            text = payload
            if canary:
                text = canary_lemmas(text)
            first = out_lines + 1
            lemmas += [dict(name=n, gen_start=a, gen_end=b, has_ensures=h) for (n, a, b, h) in find_lemmas(text, first)]
            trusted += [dict(kind=w, name=n, gen_line=l) for (w, n, l) in find_trusted(text, first)]
            out.append(text)
            out_lines += text.count('\n') + 1
        else:
            ex = payload
            emitted = expand_extract(ex, canary).rstrip('\n')
            meta = dict(ex.meta)
            meta['gen_start'] = out_lines + 1
            meta['gen_end'] = out_lines + emitted.count('\n') + 1
            meta['props'] = ex.props
            if ex.external_body:
                trusted.append(dict(kind='contract-only (callee represented by its contract, body verified elsewhere or assumed)',
                                    name=ex.id, gen_line=out_lines + 1))
            extracts.append(meta)
            out.append(emitted)
            out_lines += emitted.count('\n') + 1
            if canary and meta.get('twin'):
                tw = meta['twin'].rstrip('\n')
                twins.append(dict(id=ex.id, gen_start=out_lines + 1, gen_end=out_lines + tw.count('\n') + 1))
                out.append(tw)
                out_lines += tw.count('\n') + 1
            if (ex.kind in ('fn', 'closure', 'loopbody') and ex.cfg == 'debug' and not ex.external_body and not ex.no_release_variant
                    and re.search(r'\bdebug_assert|cfg!?\(\s*(not\()?\s*debug_assertions', mask(ex.meta['orig']))):
                # the same body as rustc compiles it with debug assertions off: debug_assert!s and cfg(debug_assertions)
                # items erased.  Emitted next to the debug variant under the same contract, so both build
                # configurations generate obligations.
                import copy
                ex2 = copy.copy(ex)
                ex2.cfg = 'release'
                ex2.id = ex.id + '@release'
                src_sig = ex.as_sig if ex.as_sig else ex.meta['emitted'].split('\n')[0]
                ex2.as_sig = re.sub(r'\bfn\s+(\w+)', lambda q: 'fn ' + q.group(1) + '__release', src_sig, count=1)
                ex2.meta = {}
                em2 = expand_extract(ex2, canary).rstrip('\n')
                meta2 = dict(ex2.meta)
                meta2['gen_start'] = out_lines + 1
                meta2['gen_end'] = out_lines + em2.count('\n') + 1
                meta2['props'] = ex.props
                extracts.append(meta2)
                out.append(em2)
                out_lines += em2.count('\n') + 1
                if canary and meta2.get('twin'):
                    tw = meta2['twin'].rstrip('\n')
                    twins.append(dict(id=ex2.id, gen_start=out_lines + 1, gen_end=out_lines + tw.count('\n') + 1))
                    out.append(tw)
                    out_lines += tw.count('\n') + 1
    return '\n'.join(out) + '\n', dict(extracts=extracts, lemmas=lemmas, trusted=trusted, twins=twins)


def diff_of(meta, n=2):
    a = meta['orig'].split('\n')
    b = meta['emitted'].split('\n')
    return '\n'.join(difflib.unified_diff(a, b, 'repo:%s:%d' % (meta['file'], meta['line']), 'emitted', lineterm='', n=n))
