"""Frame obligations: `assigns`-style checks that are syntactic over /repo's real source.
They are the only non-solver obligations.  Weakness (stated in evidence): name based, no alias analysis;
they see direct textual writers / call sites only."""
import os
import re

from . import rsrc
from .rsrc import mask, AnchorLost
from .template import read_repo, REPO


def all_fns(text, m=None):
    """[(name, start, body_open, body_close)] for every fn with a body (nested fns/closures included by span)."""
    m = m or mask(text)
    res = []
    for mo in re.finditer(r'\bfn\s+(\w+)', m):
        k, depth = mo.end(), 0
        while k < len(m):
            ch = m[k]
            if ch in '([':
                depth += 1
            elif ch in ')]':
                depth -= 1
            elif ch == '{' and depth == 0:
                break
            elif ch == ';' and depth == 0:
                k = -1
                break
            k += 1
        if k < 0 or k >= len(m):
            continue
        res.append((mo.group(1), mo.start(), k, rsrc.match_close(m, k)))
    return res


def enclosing_fn(fns, off):
    best = None
    for (name, s, bo, bc) in fns:
        if bo <= off <= bc and (best is None or bo > best[2]):
            best = (name, s, bo, bc)
    return best[0] if best else None


def src_files(subdirs=('src', 'incremental-map/src')):
    out = []
    for sd in subdirs:
        root = os.path.join(REPO, sd)
        for dp, dn, fn in os.walk(root):
            for f in fn:
                if f.endswith('.rs'):
                    out.append(os.path.relpath(os.path.join(dp, f), REPO))
    return sorted(out)


def occurrences(pattern, files=None):
    """[(file, line, enclosing fn, line text)] of regex `pattern` in code positions (test modules skipped)."""
    res = []
    for rel in (files or src_files()):
        text = read_repo(rel)
        m = mask(text)
        fns = all_fns(text, m)
        for mo in re.finditer(pattern, m):
            ln = rsrc.line_of(text, mo.start())
            res.append((rel, ln, enclosing_fn(fns, mo.start()), text.split('\n')[ln - 1].strip()))
    return res


def _callers_of(fn_name, files=None):
    """enclosing fns of every textual call site `fn_name(` / `.fn_name(` (definition sites excluded)."""
    res = []
    for (f, ln, fn, txt) in occurrences(r'(?<!fn )\b%s\s*\(' % re.escape(fn_name), files):
        if re.search(r'\bfn\s+%s\b' % re.escape(fn_name), txt):
            continue
        res.append(fn)
    return res


def only_in(name, pattern, allowed, files=None, min_hits=1, strict=True, vanished_is_violation=False):
    """Obligation: every occurrence of `pattern` lies in one of the functions `allowed`, or in a helper function
    whose every (textual) call site lies in an allowed function (one level of extraction is tolerated, so that
    moving the statement into a helper called from the same place is not an alarm; a function that is never
    called by name - a Drop impl, a trait hook - is not tolerated)."""
    occ = occurrences(pattern, files)
    bad = []
    for (f, ln, fn, txt) in occ:
        if fn in allowed or ('%s::%s' % (os.path.basename(f), fn)) in allowed:
            continue
        if fn is not None and fn not in ('drop', 'new', 'default', 'clone', 'fmt'):
            callers = _callers_of(fn)
            if callers and all(c in allowed for c in callers):
                continue
        bad.append('%s:%d in fn %s: %s' % (f, ln, fn, txt))
    if len(occ) < min_hits and not bad:
        # fewer writers than when the frame was written is no evidence of a forbidden writer: undecided
        # (unless the frame pins a struct field that the contracts are written over: then its disappearance is one)
        return dict(name=name, kind='frame/only-in', ok=(False if vanished_is_violation else None), hits=len(occ), sample=[],
                    detail=['anchor lost: pattern occurs %d time(s), expected >= %d: %s' % (len(occ), min_hits, pattern)])
    return dict(name=name, kind='frame/only-in', ok=not bad, hits=len(occ), detail=bad,
                sample=['%s:%d %s' % (f, ln, fn) for (f, ln, fn, t) in occ[:6]])


def absent(name, pattern, files=None):
    occ = occurrences(pattern, files)
    return dict(name=name, kind='frame/absent', ok=not occ, hits=len(occ),
                detail=['%s:%d in fn %s: %s' % o for o in occ], sample=[])


_GENERIC = {'new', 'get', 'set', 'insert', 'remove', 'clone', 'drop', 'default', 'fmt', 'push', 'pop', 'len', 'is_empty', 'borrow', 'borrow_mut', 'iter', 'next'}


def body_with_helpers(file_text, loc, fn_name, depth=1):
    """The body of a function with the bodies of the same-file helpers it calls as `self.h(..)`, `Self::h(..)` or
    `h(..)` spliced in right after each call (depth levels).  Used only as a fallback when a pinned statement is
    not found in the function itself: moving statements into a private helper called from the same place is not a
    semantic change."""
    m_all = mask(file_text)
    fns = {}
    for (name, s, bo, bc) in all_fns(file_text, m_all):
        fns.setdefault(name, []).append((bo, bc))
    body = file_text[loc['body_open']:loc['body_close'] + 1]

    def splice(body, seen, d):
        if d == 0:
            return body
        bm = mask(body)
        out, last = [], 0
        for mo in re.finditer(r'(?:\bself\s*\.\s*|\bSelf\s*::\s*|(?<![\w.:]))(\w+)\s*\(', bm):
            name = mo.group(1)
            if name in seen or name in _GENERIC or name not in fns or len(fns[name]) != 1:
                continue
            close = rsrc.match_close(bm, mo.end() - 1, '(', ')')
            bo, bc = fns[name][0]
            helper = splice(file_text[bo:bc + 1], seen | {name}, d - 1)
            out.append(body[last:close + 1])
            out.append(' /*helper %s*/ %s ' % (name, helper))
            last = close + 1
        out.append(body[last:])
        return ''.join(out)
    return splice(body, {fn_name}, depth)


def _scan_order(m, patterns):
    pos, found = 0, []
    for p in patterns:
        mo = re.search(p, m[pos:])
        if not mo:
            return found, p
        found.append((p, pos + mo.start()))
        pos += mo.end()
    return found, None


def in_order(name, file, fn, patterns, impl=None, strict=True):
    """Obligation: inside fn (falling back to fn with its same-file helpers spliced in), the patterns occur, each
    first occurrence after the previous one's.
      all found in order                          -> holds
      all present, but not in this order          -> VIOLATION (statements reordered)
      one no longer occurs, nor in the helpers    -> VIOLATION (statement removed) if strict, else undecided"""
    text = read_repo(file)
    try:
        loc = rsrc.find_fn(text, fn, impl)
    except AnchorLost as e:
        return dict(name=name, kind='frame/order', ok=None, hits=0, detail=['anchor lost: %s' % e], sample=[])
    tried = []
    for depth in (0, 1, 2):
        body = text[loc['body_open']:loc['body_close'] + 1] if depth == 0 else body_with_helpers(text, loc, fn, depth)
        m = mask(body)
        missing = [p for p in patterns if not re.search(p, m)]
        if missing:
            tried.append('depth %d: `%s` does not occur' % (depth, missing[0]))
            continue
        found, failed = _scan_order(m, patterns)
        if failed is None:
            return dict(name=name, kind='frame/order', ok=True, hits=len(found), detail=[],
                        sample=['%s' % p for (p, o) in found] + (['(with helpers, depth %d)' % depth] if depth else []))
        return dict(name=name, kind='frame/order', ok=False, hits=len(found),
                    detail=['in %s::%s: `%s` does not occur after `%s`' % (file, fn, failed, found[-1][0] if found else 'the start')],
                    sample=[p for (p, o) in found])
    return dict(name=name, kind='frame/order', ok=(False if strict else None), hits=0,
                detail=['in %s::%s and the helpers it calls: %s' % (file, fn, '; '.join(tried))], sample=[])


def each_guarded(name, pattern, guards, files=None, window=12, min_hits=1):
    """Obligation: every occurrence of `pattern` (a call site) is preceded, within `window` lines of the same fn,
    by one of the regexes in `guards` (a test or an assertion) - or lies in a helper function every call site of
    which is so preceded (one level)."""
    bad, n = [], 0
    files = files or src_files()

    def guarded_at(lines_m, ln):
        lo = max(0, ln - 1 - window)
        ctx = '\n'.join(lines_m[lo:ln])
        return any(re.search(g, ctx) for g in guards)

    for rel in files:
        text = read_repo(rel)
        m = mask(text)
        fns = all_fns(text, m)
        lines_m = m.split('\n')
        for mo in re.finditer(pattern, m):
            n += 1
            ln = rsrc.line_of(text, mo.start())
            fn = enclosing_fn(fns, mo.start())
            if guarded_at(lines_m, ln):
                continue
            # the guard may have moved into a helper called just before: look in the enclosing function with its
            # helpers spliced in
            encl = None
            for (nm, st_, bo_, bc_) in fns:
                if bo_ <= mo.start() <= bc_ and (encl is None or bo_ > encl[1]):
                    encl = (nm, bo_, bc_)
            if encl:
                sp = mask(body_with_helpers(text, dict(body_open=encl[1], body_close=encl[2]), encl[0], 1))
                ok_here = False
                for mo2 in re.finditer(pattern, sp):
                    pre = sp[:mo2.start()].split('\n')[-(window * 3):]
                    if any(re.search(g, '\n'.join(pre)) for g in guards):
                        ok_here = True
                # every occurrence in the spliced text must be guarded for this one to count
                if ok_here and all(any(re.search(g, '\n'.join(sp[:m3.start()].split('\n')[-(window * 3):])) for g in guards) for m3 in re.finditer(pattern, sp)):
                    continue
            # one level up: the enclosing helper's call sites
            sites = []
            if fn and fn not in _GENERIC:
                for rel2 in files:
                    t2 = read_repo(rel2)
                    m2 = mask(t2)
                    l2 = m2.split('\n')
                    for c in re.finditer(r'(?<!fn )\b%s\s*\(' % re.escape(fn), m2):
                        cl = rsrc.line_of(t2, c.start())
                        if re.search(r'\bfn\s+%s\b' % re.escape(fn), l2[cl - 1]):
                            continue
                        sites.append(guarded_at(l2, cl))
            if sites and all(sites):
                continue
            bad.append('%s:%d in fn %s: call not preceded by a guard within %d lines (nor are all call sites of %s)' % (rel, ln, fn, window, fn))
    ok = not bad and n >= min_hits
    return dict(name=name, kind='frame/guarded', ok=ok, hits=n, detail=bad or ([] if n >= min_hits else ['no call site found']), sample=[])


def body_is(name, file, fn, pattern, impl=None):
    """Obligation: the body of fn, with comments, logging statements and whitespace removed, is exactly `pattern`
    (a regex).  For one-line forwarders to a dependency, where any extra statement changes what is forwarded."""
    from . import rules
    text = read_repo(file)
    try:
        loc = rsrc.find_fn(text, fn, impl)
    except AnchorLost as e:
        return dict(name=name, kind='frame/body-is', ok=None, hits=0, detail=['anchor lost: %s' % e], sample=[])
    body = text[loc['body_open'] + 1:loc['body_close']]
    body, _ = rules.r2_tracing(body)
    m = mask(body)
    # drop comments (masked to spaces) but keep code characters
    code = ''.join(ch for ch, mk in zip(body, m) if not (mk == ' ' and ch != ' '))
    code = re.sub(r'\s+', '', code)
    ok = re.fullmatch(pattern, code) is not None
    return dict(name=name, kind='frame/body-is', ok=ok, hits=1, detail=[] if ok else ['%s::%s body is `%s`' % (file, fn, code[:300])], sample=[code[:120]])


def occurs(name, file, fn, pattern, n, impl=None):
    """Obligation: inside fn, `pattern` occurs exactly n times (counted again with the same-file helpers spliced in at
    their call sites if the plain count differs: a statement that was moved into a helper called from each place)."""
    text = read_repo(file)
    try:
        loc = rsrc.find_fn(text, fn, impl)
    except AnchorLost as e:
        return dict(name=name, kind='frame/occurs', ok=None, hits=0, detail=['anchor lost: %s' % e], sample=[])
    body = text[loc['body_open']:loc['body_close'] + 1]
    k = len(re.findall(pattern, mask(body)))
    ks = [k]
    for depth in (1, 2):
        if k == n:
            break
        k = len(re.findall(pattern, mask(body_with_helpers(text, loc, fn, depth))))
        ks.append(k)
    return dict(name=name, kind='frame/occurs', ok=(k == n), hits=k,
                detail=[] if k == n else ['%s::%s: `%s` occurs %s times (plain / with helpers), expected %d' % (file, fn, pattern, ks, n)], sample=[])
