"""Extraction rules R2..R6 (see DESIGN.md §2.2).  Each rule is a function
(text) -> (new_text, n_fired).  They operate on function-body text taken verbatim from /repo.
Nothing here knows about any particular function: the rules are generic, so a change to the
code under contract is carried into the verified text, not masked by the extractor."""
import re
from .rsrc import mask, match_close, split_top_commas, stmt_line_start, stmt_line_end, AnchorLost

TRACE_MACROS = r'tracing::(?:trace|debug|info|warn|error)!'
SPAN_MACROS = r'tracing::(?:trace_span|debug_span|info_span|warn_span|error_span|span)!'


def _del_stmt(text, a, b):
    a2 = stmt_line_start(text, a)
    b2 = stmt_line_end(text, b) if a2 != a else b
    return text[:a2] + text[b2:]


def r2_tracing(text):
    """R2: erase logging.  tracing event macros (statement position), span bindings, span guards,
    and `X.in_scope(|| BODY)` -> BODY (tracing::Span::in_scope only enters the span and calls
    the closure).  A closure body containing `return` is wrapped so that `return` keeps its
    closure-local meaning: see r2 note in DESIGN (labelled block)."""
    fired = 0
    # 1. event macros
    while True:
        m = mask(text)
        mo = re.search(TRACE_MACROS + r'\s*\(', m)
        if not mo:
            break
        close = match_close(m, mo.end() - 1, '(', ')')
        k = close + 1
        while k < len(m) and m[k] in ' \t\n':
            k += 1
        if k < len(m) and m[k] == ';':
            text = _del_stmt(text, mo.start(), k + 1)
        else:
            # expression position (e.g. match arm `=> tracing::debug!(..),`): unit value
            text = text[:mo.start()] + '()' + text[close + 1:]
        fired += 1
    # 2. span bindings: let NAME = span_macro!(...);
    spans = []
    while True:
        m = mask(text)
        mo = re.search(r'let\s+(\w+)\s*=\s*' + SPAN_MACROS + r'\s*\(', m)
        if not mo:
            break
        close = match_close(m, mo.end() - 1, '(', ')')
        k = close + 1
        while m[k] in ' \t\n':
            k += 1
        if m[k] != ';':
            break
        spans.append(mo.group(1))
        text = _del_stmt(text, mo.start(), k + 1)
        fired += 1
    # 3. guards: let _g = NAME.enter();
    for name in spans:
        while True:
            m = mask(text)
            mo = re.search(r'let\s+\w+\s*=\s*%s\.enter\(\)\s*;' % re.escape(name), m)
            if not mo:
                break
            text = _del_stmt(text, mo.start(), mo.end())
            fired += 1
    # 4. in_scope(|| BODY)
    while True:
        m = mask(text)
        pat = r'(?:%s|%s\s*\([^()]*\))\s*\.in_scope\(\s*\|\|\s*' % (
            '|'.join(map(re.escape, spans)) if spans else r'(?!x)x', SPAN_MACROS)
        mo = re.search(pat, m)
        if not mo:
            break
        # find '(' of in_scope
        po = m.rfind('(', mo.start(), mo.end())
        # careful: rfind may hit '(' of the span macro; search for '.in_scope(' explicitly
        po = m.find('.in_scope(', mo.start(), mo.end()) + len('.in_scope')
        pc = match_close(m, po, '(', ')')
        body = text[mo.end():pc]
        bm = m[mo.end():pc]
        if re.search(r'\breturn\b', bm):
            # closure-local `return`: keep the closure and call it at once (in_scope(f) == f())
            body = '(|| ' + body + ')()'
        text = text[:mo.start()] + body + text[pc + 1:]
        fired += 1
    return text, fired


def r5_cells(text, fields, recv='self'):
    """R5: interior-mutability erasure for the listed fields of `recv`."""
    fired = 0
    fre = '(?:' + '|'.join(map(re.escape, fields)) + ')'
    base = r'(?<![\w.])' + re.escape(recv) + r'\s*\.\s*(' + fre + r')'

    def sub_call(method, fmt):
        nonlocal text, fired
        while True:
            m = mask(text)
            mo = re.search(base + r'\s*\.\s*' + method + r'\s*\(', m)
            if not mo:
                break
            close = match_close(m, mo.end() - 1, '(', ')')
            arg = text[mo.end():close]
            text = text[:mo.start()] + fmt.format(f=recv + '.' + mo.group(1), a=arg) + text[close + 1:]
            fired += 1

    # guards: `let [mut] G = recv.f.borrow[_mut]();` -- remember G; `drop(G);` only released the
    # RefCell borrow flag, which R5 erases, so the statement is erased with it.
    guards = re.findall(r'let\s+(?:mut\s+)?(\w+)\s*(?::[^=;]+)?=\s*' + base + r'\s*\.\s*borrow(?:_mut)?\s*\(\s*\)\s*;', mask(text))
    for g in guards:
        name = g[0]
        while True:
            m = mask(text)
            mo = re.search(r'\b(?:std::mem::|core::mem::)?drop\(\s*%s\s*\)\s*;' % re.escape(name), m)
            if not mo:
                break
            text = _del_stmt(text, mo.start(), mo.end())
            fired += 1
    sub_call('get', '{f}')
    sub_call('set', '{f} = ({a})')
    sub_call('replace', 'core::mem::replace(&mut {f}, {a})')
    sub_call('take', 'vx_take(&mut {f})')
    sub_call('borrow', '(&{f})')
    sub_call('borrow_mut', '(&mut {f})')
    sub_call('increment', '{f} = {f} + 1')
    sub_call('decrement', '{f} = {f} - 1')
    return text, fired


def r5_alias(text, name, path, field):
    """R5 for a cell reached through an accessor: `let X = <expr>.FIELD();` (an accessor returning the &Cell; X is
    whatever the local is called) is erased and every `X.` becomes `PATH.FIELD.`; a direct use `<expr>.FIELD().get()`
    becomes `PATH.FIELD.get()`; the ordinary R5 method rewrites then apply with receiver PATH.  The cell is thereby
    treated as owned by PATH (aliasing through other handles dropped)."""
    fired = 0
    while True:
        m = mask(text)
        mo = re.search(r'let\s+([A-Za-z_]\w*)\s*=\s*[^;]*?\.\s*%s\(\)\s*;' % re.escape(field), m)
        if not mo:
            break
        local = mo.group(1)
        text = _del_stmt(text, mo.start(), mo.end())
        fired += 1
        m = mask(text)
        out, last = [], 0
        for mu in re.finditer(r'(?<![\w.])%s\s*\.' % re.escape(local), m):
            out.append(text[last:mu.start()])
            out.append('%s.%s.' % (path, field))
            last = mu.end()
            fired += 1
        out.append(text[last:])
        text = ''.join(out)
    # direct uses: <receiver chain>.FIELD()
    while True:
        m = mask(text)
        mo = re.search(r'\.\s*%s\(\)' % re.escape(field), m)
        if not mo:
            break
        op = m.index('(', mo.start())
        a, b = _call_extent(m, mo.start(), op)
        text = text[:a] + '%s.%s' % (path, field) + text[b:]
        fired += 1
    if not fired:
        return text, 0
    text, n = r5_cells(text, [field], path)
    return text, fired + n


def r5_types(text, fields):
    """R5 on a struct definition: `f: Cell<X>` / `f: RefCell<X>` -> `f: X` for the listed fields."""
    fired = 0
    for f in fields:
        m = mask(text)
        mo = re.search(r'\b%s\s*:\s*(?:std::cell::|core::cell::)?(?:Cell|RefCell)\s*<' % re.escape(f), m)
        if not mo:
            continue
        close = match_close(m, mo.end() - 1, '<', '>')
        inner = text[mo.end():close]
        text = text[:mo.start()] + f + ': ' + inner + text[close + 1:]
        fired += 1
    return text, fired


def r6_panics(text, mode='obligation', cfg='debug'):
    """R6: panic sites.  mode 'obligation': panic!/unreachable! -> vx_panic() (requires false),
    assert!(c,..) -> vx_assert(c) (requires c).  mode 'diverge' (must-panic variants):
    panic! -> vx_diverge() (ensures false), assert!(c) -> vx_assert_or_diverge(c) (ensures c).
    debug_assert*! are kept as assertions when cfg == 'debug' and erased when cfg == 'release'
    (that is what rustc does with them).  Message arguments are dropped."""
    fired = 0
    pan = 'vx_panic()' if mode == 'obligation' else 'vx_diverge()'
    asr = 'vx_assert' if mode == 'obligation' else 'vx_assert_or_diverge'
    while True:
        m = mask(text)
        mo = re.search(r'\b(panic|unreachable|unimplemented|todo|assert|assert_eq|assert_ne|debug_assert|debug_assert_eq|debug_assert_ne)!\s*\(', m)
        if not mo:
            break
        close = match_close(m, mo.end() - 1, '(', ')')
        name = mo.group(1)
        inner = text[mo.end():close]
        innerm = m[mo.end():close]
        if name in ('panic', 'unreachable', 'unimplemented', 'todo'):
            rep = pan
        else:
            parts = split_top_commas((inner, innerm))
            if name.endswith('_eq'):
                cond = '(%s) == (%s)' % (parts[0].strip(), parts[1].strip())
            elif name.endswith('_ne'):
                cond = '(%s) != (%s)' % (parts[0].strip(), parts[1].strip())
            else:
                cond = parts[0].strip()
            if name.startswith('debug_') and cfg == 'release':
                rep = None
            else:
                rep = '%s(%s)' % (asr, cond)
        if rep is None:
            k = close + 1
            while k < len(m) and m[k] in ' \t\n':
                k += 1
            if k < len(m) and m[k] == ';':
                text = _del_stmt(text, mo.start(), k + 1)
            else:
                text = text[:mo.start()] + '()' + text[close + 1:]
        else:
            text = text[:mo.start()] + rep + text[close + 1:]
        fired += 1
    return text, fired


def r1c_cfg(text, cfg='debug'):
    """R1c: `#[cfg(debug_assertions)]` / `#[cfg(not(debug_assertions))]` items and statements:
    kept (attribute stripped) in the matching variant, erased in the other."""
    fired = 0
    # `cfg!(debug_assertions)` / `cfg!(not(debug_assertions))` expressions become the constant of the variant
    while True:
        m = mask(text)
        mo = re.search(r'\bcfg!\(\s*(not\(\s*)?debug_assertions\s*\)?\s*\)', m)
        if not mo:
            break
        val = (cfg == 'debug') != bool(mo.group(1))
        text = text[:mo.start()] + ('true' if val else 'false') + text[mo.end():]
        fired += 1
    while True:
        m = mask(text)
        mo = re.search(r'#\[cfg\((not\()?debug_assertions\)?\)\]\s*', m)
        if not mo:
            break
        is_not = bool(mo.group(1))
        keep = (cfg == 'debug') != is_not
        k = mo.end()
        # extent of the following statement / item
        if m[k] == '{':
            end = match_close(m, k) + 1
        else:
            blocklike = re.match(r'(fn|match|if|for|while|loop|unsafe)\b', m[k:k + 8]) is not None
            depth, j, end = 0, k, None
            while j < len(m):
                ch = m[j]
                if ch in '([':
                    depth += 1
                elif ch in ')]':
                    depth -= 1
                elif ch == '{' and depth == 0:
                    j = match_close(m, j)
                    if blocklike:
                        end = j + 1
                        break
                elif ch == ';' and depth == 0:
                    end = j + 1
                    break
                elif ch == '}' and depth == 0:
                    end = j
                    break
                j += 1
            if end is None:
                raise AnchorLost('cfg(debug_assertions) statement extent')
        if keep:
            text = text[:mo.start()] + text[mo.end():]
        else:
            text = _del_stmt(text, mo.start(), end)
        fired += 1
    return text, fired


def strip_attrs(text):
    """#[inline..], #[rustfmt::skip..], #[allow..], #[tracing::instrument(..)] inside extracted text."""
    fired = 0
    while True:
        m = mask(text)
        mo = re.search(r'#\[(?:inline|rustfmt::skip|allow|tracing::instrument|doc|must_use)\b', m)
        if not mo:
            break
        close = match_close(m, mo.start() + 1, '[', ']')
        text = _del_stmt(text, mo.start(), close + 1)
        fired += 1
    return text, fired


def apply_literal(text, pat, rep, count=None, regex=False):
    """A unit-specific rewrite.  Only code positions are matched (via mask) for literal
    patterns that contain no string literal; count None = any number >= 1."""
    m = mask(text)
    if regex:
        hits = [(x.start(), x.end(), x) for x in re.finditer(pat, m)]
    else:
        hits = []
        pm = pat
        i = 0
        src = m if '"' not in pat else text
        while True:
            j = src.find(pm, i)
            if j < 0:
                break
            hits.append((j, j + len(pm), None))
            i = j + len(pm)
    if count is not None and len(hits) != count:
        raise AnchorLost('rewrite %r: expected %s match(es), found %d' % (pat, count, len(hits)))
    if count is None and not hits:
        raise AnchorLost('rewrite %r: no match' % pat)
    out, last = [], 0
    for (a, b, mo) in hits:
        out.append(text[last:a])
        if mo is not None:
            # expand groups against ORIGINAL text spans
            def grp(g):
                idx = int(g.group(1))
                return text[mo.start(idx):mo.end(idx)]
            out.append(re.sub(r'\\(\d)', grp, rep))
        else:
            out.append(rep)
        last = b
    out.append(text[last:])
    return ''.join(out), len(hits)


def r7_loop_value(text):
    """R7b: `let X = loop { .. break E .. };` -> `let X; loop { .. { X = E; break; } .. }`.
    Same meaning in Rust (deferred initialisation, definite assignment checked by rustc);
    needed because the verifier does not support `break` with a value."""
    fired = 0
    while True:
        m = mask(text)
        mo = re.search(r'\blet\s+(mut\s+)?(\w+)\s*(:\s*[^=;]+?)?\s*=\s*loop\s*\{', m)
        if not mo:
            break
        var = mo.group(2)
        bo = mo.end() - 1
        bc = match_close(m, bo)
        inner_m = m[bo + 1:bc]
        if re.search(r'\b(loop|while|for)\b', inner_m):
            raise AnchorLost('r7_loop_value: nested loop inside value loop')
        inner = text[bo + 1:bc]
        out, last = [], 0
        for b in re.finditer(r'\bbreak\b', inner_m):
            # expression extent: up to ',' or ';' or '}' at depth 0
            k, depth = b.end(), 0
            while k < len(inner_m):
                ch = inner_m[k]
                if ch in '([{':
                    depth += 1
                elif ch in ')]}':
                    if depth == 0:
                        break
                    depth -= 1
                elif ch in ',;' and depth == 0:
                    break
                k += 1
            expr = inner[b.end():k].strip()
            if not expr:
                continue
            out.append(inner[last:b.start()])
            out.append('{ %s = %s; break; }' % (var, expr))
            last = k
        out.append(inner[last:])
        ty = mo.group(3) or ''
        head = 'let %s%s%s; loop {' % (mo.group(1) or '', var, ty.rstrip())
        text = text[:mo.start()] + head + ''.join(out) + text[bc:]
        fired += 1
    return text, fired


def r7_closure_tuple_param(text):
    """R7c: a closure whose single parameter is a tuple pattern of identifiers, `|(a, b)| E`, is emitted as
    `|vx_p| { let (a, b) = vx_p; E }` (same meaning; the verifier only accepts plain variables as closure
    parameters).  E extends to the closing bracket of the enclosing call."""
    fired = 0
    while True:
        m = mask(text)
        mo = re.search(r'\|\s*(\(\s*\w+\s*(?:,\s*\w+\s*)*\))\s*\|', m)
        if not mo:
            break
        # body: up to the matching close of the enclosing '(' (closure is the last argument)
        k, depth = mo.end(), 0
        while k < len(m):
            ch = m[k]
            if ch in '([{':
                depth += 1
            elif ch in ')]}':
                if depth == 0:
                    break
                depth -= 1
            elif ch == ',' and depth == 0:
                break
            k += 1
        body = text[mo.end():k].strip()
        text = text[:mo.start()] + '|vx_p| { let %s = vx_p; %s }' % (text[mo.start(1):mo.end(1)], body) + text[k:]
        fired += 1
    return text, fired


def r7_eta_constructor(text):
    """R7d: a datatype constructor passed as a function value, `.map(Enum::Variant)`, is eta-expanded to
    `.map(|vx_x| Enum::Variant(vx_x))` (same meaning; unsupported by the verifier as written)."""
    fired = 0
    while True:
        m = mask(text)
        mo = re.search(r'\.(map|map_err|and_then)\(\s*((?:[A-Za-z_]\w*::)+[A-Z]\w*)\s*\)', m)
        if not mo:
            break
        text = text[:mo.start()] + '.%s(|vx_x| %s(vx_x))' % (mo.group(1), text[mo.start(2):mo.end(2)]) + text[mo.end():]
        fired += 1
    return text, fired


def r3_flatten_paths(text):
    """R3p: the generated file is one flat module, so `crate::` / `super::` / `self::` module prefixes of items are
    dropped (`super::internal_observer::ObserverState::InUse` -> `ObserverState::InUse`, `crate::rc_thin_ptr_eq(` ->
    `rc_thin_ptr_eq(`).  std/core/alloc paths are left alone."""
    m = mask(text)
    out, last, fired = [], 0, 0
    for mo in re.finditer(r'\b(?:crate|super|self)::(?:[a-z_][a-z0-9_]*::)*(?=[A-Za-z_])', m):
        out.append(text[last:mo.start()])
        last = mo.end()
        fired += 1
    out.append(text[last:])
    return ''.join(out), fired


def r7_let_else_continue(text):
    """R7e: `let PAT = E else { continue; }; REST` (REST = the remainder of the enclosing loop body) is emitted as
    `if let PAT = E { REST }` - same meaning; the verifier's for-loops do not support `continue`."""
    fired = 0
    while True:
        m = mask(text)
        mo = re.search(r'\blet\s+([^=;]+?)\s*=\s*([^;{}]+?)\s*else\s*\{\s*continue\s*;?\s*\}\s*;', m)
        if not mo:
            break
        # the enclosing block ends at the first unmatched '}' after the statement
        k, depth = mo.end(), 0
        while k < len(m):
            ch = m[k]
            if ch == '{':
                depth += 1
            elif ch == '}':
                if depth == 0:
                    break
                depth -= 1
            k += 1
        rest = text[mo.end():k]
        text = text[:mo.start()] + 'if let %s = %s {%s}\n' % (text[mo.start(1):mo.end(1)], text[mo.start(2):mo.end(2)], rest) + text[k:]
        fired += 1
    return text, fired


def r7_while_block_cond(text):
    """R7f: `while { S; C } { B }` (a block as the loop condition: a do-while in disguise) is emitted as
    `loop { S; if !(C) { break; } B }` - the same evaluation order; the verifier needs the condition's statements
    inside the loop body to state invariants about them."""
    fired = 0
    while True:
        m = mask(text)
        mo = re.search(r'\bwhile\s*\{', m)
        if not mo:
            break
        co = mo.end() - 1
        cc = match_close(m, co)
        k = cc + 1
        while k < len(m) and m[k] in ' \t\n':
            k += 1
        if k >= len(m) or m[k] != '{':
            raise AnchorLost('r7_while_block_cond: no loop body after block condition')
        bo, bc = k, match_close(m, k)
        cond_block, cond_m = text[co + 1:cc], m[co + 1:cc]
        # the block's value is what follows its last top-level `;`
        depth, last_semi = 0, -1
        for i, ch in enumerate(cond_m):
            if ch in '([{':
                depth += 1
            elif ch in ')]}':
                depth -= 1
            elif ch == ';' and depth == 0:
                last_semi = i
        stmts, value = cond_block[:last_semi + 1], cond_block[last_semi + 1:].strip()
        if not value:
            raise AnchorLost('r7_while_block_cond: block condition has no value')
        text = text[:mo.start()] + 'loop {' + stmts + '\n if !(' + value + ') { break; }' + text[bo + 1:bc] + '}' + text[bc + 1:]
        fired += 1
    return text, fired


def _call_extent(m, start, open_paren):
    """[a, b): the whole call expression around a match that starts at the callee's name (or the dot in front of it)
    and whose argument list opens at `open_paren`: the receiver chain to the left (identifiers, `.`, `::`, `?`,
    balanced `(..)` / `[..]`), and the argument list up to its closing parenthesis."""
    b = match_close(m, open_paren, '(', ')') + 1
    i = start
    # the match may start at the method name: step back over whitespace and the dot in front of it
    def skip_ws_left(k):
        while k > 0 and m[k - 1] in ' \t\n':
            k -= 1
        return k
    k = skip_ws_left(i)
    if i < len(m) and m[i] != '.' and not (k > 0 and m[k - 1] == '.') and not (k > 1 and m[k - 2:k] == '::'):
        return i, b            # a free function / path call: the match already starts at its beginning
    if m[i] == '.':
        k = i
    while True:
        # k points just after a '.' or '::' separator (or at the '.' itself): consume the separator
        if k > 0 and m[k - 1] == '.':
            k -= 1
        elif m[k:k + 1] == '.':
            pass
        elif k > 1 and m[k - 2:k] == '::':
            k -= 2
        k = skip_ws_left(k)
        # one segment: optional `?`, optional balanced groups, then an identifier (or nothing for a parenthesised expr)
        while k > 0 and m[k - 1] == '?':
            k -= 1
        progressed = False
        while k > 0 and m[k - 1] in ')]':
            close = k - 1
            opener = '(' if m[close] == ')' else '['
            depth, j = 0, close
            while j >= 0:
                if m[j] == m[close]:
                    depth += 1
                elif m[j] == opener:
                    depth -= 1
                    if depth == 0:
                        break
                j -= 1
            if j < 0:
                raise AnchorLost('unbalanced receiver expression')
            k = j
            progressed = True
        j = k
        while j > 0 and (m[j - 1].isalnum() or m[j - 1] == '_'):
            j -= 1
        if j < k:
            k = j
            progressed = True
        if not progressed:
            break
        k2 = skip_ws_left(k)
        if k2 > 0 and m[k2 - 1] == '.':
            k = k2
            continue
        if k2 > 1 and m[k2 - 2:k2] == '::':
            k = k2
            continue
        break
    return k, b


def wrap_calls(text, pat, before, after):
    """Variant rewrites: every call whose callee matches `pat` (a regex ending at the opening parenthesis of the
    argument list) is replaced by `{ before <the whole call expression> after }`.  Returns (text, number of calls)."""
    m = mask(text)
    spans = []
    for mo in re.finditer(pat, m):
        op = mo.end() - 1
        if m[op] != '(':
            raise AnchorLost('variant pattern must end at the opening parenthesis of the call: %s' % pat)
        a, b = _call_extent(m, mo.start(), op)
        if spans and a < spans[-1][1]:
            continue
        spans.append((a, b))
    out, last = [], 0
    for (a, b) in spans:
        out.append(text[last:a])
        out.append('{ %slet vx_r = %s; %svx_r }' % (before, text[a:b], after))
        last = b
    out.append(text[last:])
    return ''.join(out), len(spans)


def _sub_ident(text, m, old, new):
    out, last = [], 0
    for mo in re.finditer(r'(?<![\w.])%s\b' % re.escape(old), m):
        out.append(text[last:mo.start()])
        out.append(new)
        last = mo.end()
    out.append(text[last:])
    return out


def r3_inline_helpers(body, src, known, self_name, depth=2, only=None):
    """R3h: a call `self.h(args)` / `Self::h(args)` of a helper that the unit has no text for (neither an extract nor a
    stub) but that is defined exactly once in the same source file, without `return` / `?` in its body, is replaced
    by `{ let (params) = (args); <the helper's body> }` - the meaning of the call.  Extracting a few statements into
    a private helper (or the reverse) is therefore not a change of the verified text's meaning."""
    fired = []
    sm = mask(src)
    defs = {}
    for mo in re.finditer(r'\bfn\s+(\w+)', sm):
        k, dp = mo.end(), 0
        while k < len(sm):
            ch = sm[k]
            if ch in '([':
                dp += 1
            elif ch in ')]':
                dp -= 1
            elif ch == '{' and dp == 0:
                break
            elif ch == ';' and dp == 0:
                k = -1
                break
            k += 1
        if k < 0 or k >= len(sm):
            continue
        defs.setdefault(mo.group(1), []).append((mo.start(), mo.end(), k, match_close(sm, k)))
    for _ in range(depth):
        m = mask(body)
        changed = False
        out, last = [], 0
        for mo in re.finditer(r'(\bself\s*\.\s*|\bSelf\s*::\s*|(?<![\w.:!]))([A-Za-z_]\w*)\s*\(', m):
            name = mo.group(2)
            if name in ('if', 'while', 'match', 'for', 'loop', 'return', 'Some', 'Ok', 'Err', 'None', 'fn', 'let', 'in'):
                continue
            if mo.start() < last or name in known or name == self_name or name not in defs or len(defs[name]) != 1 or (only is not None and name not in only):
                continue
            fs, fe, bo, bc = defs[name][0]
            hbody, hm = src[bo:bc + 1], sm[bo:bc + 1]
            if re.search(r'\breturn\b|\?', hm) or re.search(r'\b(loop|while|for)\b', hm) and re.search(r'\bbreak\b', hm) is None and False:
                continue
            # parameters
            po = sm.index('(', fe)
            pc = match_close(sm, po, '(', ')')
            params = [x.strip() for x in split_top_commas((src[po + 1:pc], sm[po + 1:pc])) if x.strip()]
            is_method = bool(params) and re.match(r'^(&\s*(\'\w+\s+)?(mut\s+)?)?self\b', params[0]) is not None
            via_self = m[mo.start():mo.end()].lstrip().startswith('self')
            if via_self != is_method:
                continue
            if not mo.group(1) and len(name) < 4:
                continue
            if is_method:
                params = params[1:]
            pats = []
            ok = True
            for prm in params:
                pm = mask(prm)
                c = pm.find(':')
                if c < 0:
                    ok = False
                    break
                pats.append(prm[:c].strip())
            if not ok:
                continue
            ao = mo.end() - 1
            ac = match_close(m, ao, '(', ')')
            args = [x.strip() for x in split_top_commas((body[ao + 1:ac], m[ao + 1:ac])) if x.strip()]
            if len(args) != len(pats):
                continue
            # an argument that is a plain variable (or a shared borrow of one) is passed by name: the parameter is
            # renamed to it in the helper's text (so that a handle that rule R5 turned into `&mut` stays one)
            let_p, let_a = [], []
            for pt, ag in zip(pats, args):
                ma = re.match(r'^&?\s*([A-Za-z_]\w*)$', ag)
                if ma and re.match(r'^[A-Za-z_]\w*$', pt) and ma.group(1) != 'self':
                    if pt != ma.group(1):
                        hm2 = mask(hbody)
                        hbody = ''.join(_sub_ident(hbody, hm2, pt, ma.group(1)))
                else:
                    let_p.append(pt)
                    let_a.append(ag)
            if let_p:
                rep = '{ let (%s,) = (%s,); %s }' % (', '.join(let_p), ', '.join(let_a), hbody)
            else:
                rep = '{ %s }' % hbody
            out.append(body[last:mo.start()])
            out.append(rep)
            last = ac + 1
            fired.append(name)
            changed = True
        out.append(body[last:])
        body = ''.join(out)
        if not changed:
            break
    return body, fired


def r7_closure_wildcard_param(text):
    """R7i: a closure parameter `_` (`|_| E`, `|_, x| E`) is given a name (`_vx_ignored`): same meaning; the verifier
    accepts only variables as closure parameters."""
    m = mask(text)
    out, last, n = [], 0, 0
    for mo in re.finditer(r'\|([^|{};]*)\|', m):
        inner = mo.group(1)
        if not re.search(r'(^|,)\s*_\s*(,|:|$)', inner):
            continue
        # make sure this is a closure header: preceded by `(`, `,`, `=`, `move`, `{`, or start
        pre = m[:mo.start()].rstrip()
        if pre and not (pre[-1] in '(,={;' or pre.endswith('move') or pre.endswith('return')):
            continue
        k = [0]
        def nm(q):
            k[0] += 1
            return '%s_vx_ignored%d%s' % (q.group(1), k[0], q.group(2))
        new_inner = re.sub(r'(^|,\s*)_(\s*(?:,|:|$))', nm, text[mo.start(1):mo.end(1)])
        new_inner = re.sub(r'(^|,\s*)_(\s*(?:,|:|$))', nm, new_inner)
        out.append(text[last:mo.start(1)])
        out.append(new_inner)
        last = mo.end(1)
        n += 1
    out.append(text[last:])
    return ''.join(out), n


def r7_map_or_literal(text):
    """R7g: `X.map_or(LIT, |p| E)` with a literal default (`true`/`false`/number) -> `match X { None => LIT, Some(p) => E }`
    (the definition of Option::map_or; the default is a literal, so evaluating it eagerly or not is the same)."""
    fired = 0
    while True:
        m = mask(text)
        mo = re.search(r'\.\s*map_or\(\s*(true|false|\d+)\s*,\s*\|\s*([A-Za-z_]\w*)\s*\|', m)
        if not mo:
            break
        op = m.index('(', mo.start())
        cl = match_close(m, op, '(', ')')
        body = text[mo.end():cl].strip()
        # receiver: walk left over the method chain
        a, _ = _call_extent(m, mo.start(), op)
        recv = text[a:mo.start()]
        rep = 'match %s { None => %s, Some(%s) => %s }' % (recv, mo.group(1), mo.group(2), body)
        text = text[:a] + rep + text[cl + 1:]
        fired += 1
    return text, fired


_PATH = r'(?:[A-Za-z_]\w*)(?:\s*\.\s*[A-Za-z_]\w*(?:\(\))?)*'


def r4_stamp_compare(text, names):
    """R4s: an ordering comparison between two StabilisationNum values (`names` lists the fields / locals of that type)
    compares their numbers: `A < B` -> `A.0 < B.0` (the derived PartialOrd of a one-field tuple struct; the verifier
    has no spec for derived orderings).  Works whichever operand is written first and whatever the operator."""
    m = mask(text)
    out, last, n = [], 0, 0
    for mo in re.finditer(r'(%s)\s+(<=|>=|<|>)\s+(%s)' % (_PATH, _PATH), m):
        if mo.start() < last:
            continue
        def last_seg(p):
            segs = [x for x in re.findall(r'[A-Za-z_]\w*', p) if x not in ('get',)]
            return segs[-1] if segs else ''
        a, b = mo.group(1), mo.group(3)
        if last_seg(a) not in names and last_seg(b) not in names:
            continue
        if a.rstrip().endswith('.0') or b.rstrip().endswith('.0'):
            continue
        out.append(text[last:mo.start()])
        out.append('%s.0 %s %s.0' % (text[mo.start(1):mo.end(1)], mo.group(2), text[mo.start(3):mo.end(3)]))
        last = mo.end()
        n += 1
    out.append(text[last:])
    return ''.join(out), n
