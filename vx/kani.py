"""Bounded counterexample finder (Kani) for the merge iterator of unit symfold, and replay of its counterexample on the
real crate.  NOT a proof and never counted as one: arrays of length <= 3 over u8, unwind 8.  Used (a) when a Verus
obligation of MergeOnce fails, to turn `no-failing-input-found` into a concrete failing input that is then run
against the real code, (b) in the thorough tier as an extra (labelled bounded) check."""
import os
import re
import shutil
import subprocess
import time

from .template import REPO

ROOT = os.path.dirname(os.path.dirname(os.path.abspath(__file__)))
SRC = 'incremental-map/src/symmetric_fold.rs'
HARNESS = 'merge_once_is_the_sorted_union'


def _scratch():
    d = '/var/tmp/verif-kani-%d' % os.getpid()
    shutil.rmtree(d, ignore_errors=True)
    os.makedirs(d + '/src')
    return d


def _erase_debug_assertions(text):
    """the module as rustc compiles it with debug assertions off (rule R1c, release variant)"""
    from . import rules
    from .rsrc import mask, match_close
    text, _ = rules.r1c_cfg(text, 'release')
    while True:
        m = mask(text)
        mo = re.search(r'\bdebug_assert(?:_eq|_ne)?!\s*\(', m)
        if not mo:
            break
        close = match_close(m, mo.end() - 1, '(', ')')
        k = close + 1
        while k < len(m) and m[k] in ' \t\n':
            k += 1
        end = k + 1 if k < len(m) and m[k] == ';' else close + 1
        text = text[:mo.start()] + text[end:]
    return text


def find_counterexample(timeout=900, release=False):
    """Returns dict(status='verified'|'failed'|'error', check=..., a=[..], b=[..], la=.., lb=.., wall_s=.., log=..)."""
    t0 = time.time()
    d = _scratch()
    try:
        open(d + '/Cargo.toml', 'w').write('[package]\nname = "vxkani"\nversion = "0.0.0"\nedition = "2021"\n[lib]\npath = "src/lib.rs"\n[workspace]\n')
        text = open(os.path.join(REPO, SRC)).read()
        # the module is std-only apart from the test-log import: drop it and disable the #[test] items (extraction
        # of the real text; nothing else is touched)
        text = '\n'.join(l for l in text.split('\n') if l.strip() not in ('use test_log::test;', '#[cfg(test)]'))
        text = re.sub(r'(?m)^#\[test\]$', '#[cfg(any())]', text)
        if release:
            text = _erase_debug_assertions(text)
        text += open(os.path.join(ROOT, 'kani', 'symfold_harness.rs')).read()
        open(d + '/src/lib.rs', 'w').write(text)
        env = dict(os.environ, CARGO_NET_OFFLINE='true')
        p = subprocess.run(['cargo', 'kani', '--harness', HARNESS, '-Z', 'concrete-playback', '--concrete-playback=print'],
                           cwd=d, capture_output=True, text=True, env=env, timeout=timeout)
        out = p.stdout + p.stderr
        res = dict(wall_s=round(time.time() - t0, 1), log=out[-3000:], bound='arrays of length <= 3 over u8, unwind 8', variant='release' if release else 'debug')
        if 'VERIFICATION:- SUCCESSFUL' in out:
            res['status'] = 'verified'
            return res
        if 'VERIFICATION:- FAILED' not in out:
            res['status'] = 'error'
            return res
        res['status'] = 'failed'
        mo = re.search(r'Failed Checks: "([^"]*)"', out)
        res['check'] = mo.group(1) if mo else '?'
        vals = re.findall(r'vec!\[([0-9, ]+)\],', out)
        nums = [[int(x) for x in v.split(',') if x.strip()] for v in vals]
        if len(nums) >= 8:
            res['a'] = [nums[0][0], nums[1][0], nums[2][0]]
            res['b'] = [nums[3][0], nums[4][0], nums[5][0]]
            res['la'] = int.from_bytes(bytes(nums[6]), 'little')
            res['lb'] = int.from_bytes(bytes(nums[7]), 'little')
        return res
    except subprocess.TimeoutExpired:
        return dict(status='error', log='kani timed out', wall_s=round(time.time() - t0, 1))
    finally:
        shutil.rmtree(d, ignore_errors=True)


def replay_on_real_crate(cx):
    """Append a plain #[test] with the concrete inputs to a scratch copy of the real module and run it."""
    d = '/var/tmp/verif-kani-replay-%d' % os.getpid()
    shutil.rmtree(d, ignore_errors=True)
    os.makedirs(d)
    try:
        subprocess.run('rsync -a --exclude target --exclude .git %s/ %s/repo/' % (REPO, d), shell=True, check=True)
        if os.path.isdir(os.path.join(REPO, 'target', 'debug')):
            subprocess.run('rsync -a %s/target/debug %s/target/' % (REPO, d), shell=True)
        a, b = cx['a'][:cx['la']], cx['b'][:cx['lb']]
        test = '''
#[cfg(test)]
mod vx_counterexample_replay {
    use super::MergeOnce;
    #[::core::prelude::v1::test]
    fn vx_replay_merge_once() {
        let a: Vec<u8> = vec!%s;
        let b: Vec<u8> = vec!%s;
        let out: Vec<u8> = MergeOnce::new(a.iter(), b.iter()).cloned().collect();
        let mut want: Vec<u8> = a.iter().chain(b.iter()).cloned().collect();
        want.sort();
        want.dedup();
        assert_eq!(out, want, "merge of {:?} and {:?}", a, b);
    }
}
''' % (a, b)
        with open(os.path.join(d, 'repo', SRC), 'a') as f:
            f.write(test)
        env = dict(os.environ, CARGO_TARGET_DIR=d + '/target', CARGO_NET_OFFLINE='true', RUST_BACKTRACE='0')
        outs = []
        failed_somewhere = False
        for prof in ('', '--release'):
            cmd = 'cargo test --offline %s -p incremental-map --lib vx_replay_merge_once' % prof
            p = subprocess.run(cmd, shell=True, cwd=d + '/repo', capture_output=True, text=True, env=env)
            full = p.stdout + p.stderr
            tail = '\n'.join(l for l in full.split('\n') if l.startswith('test ') or 'panicked' in l or 'left' in l or 'right' in l or 'test result' in l)
            ran = re.search(r'test result: \w+\. (\d+) passed; (\d+) failed', full)
            if not ran or int(ran.group(1)) + int(ran.group(2)) == 0:
                # the replay did not build or did not run: that is a tool problem, not a failing input
                outs.append(dict(cmd=cmd, rc=p.returncode, summary='replay did not run: ' + full[-600:], ran=False))
                continue
            outs.append(dict(cmd=cmd, rc=p.returncode, summary=tail[-800:], ran=True))
            failed_somewhere = failed_somewhere or int(ran.group(2)) > 0
        return dict(inputs=dict(a=a, b=b), test=test, runs=outs, fails_on_real_code=failed_somewhere)
    finally:
        shutil.rmtree(d, ignore_errors=True)
