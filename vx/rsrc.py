"""Rust source utilities for the vx extractor (stdlib only).

Everything here works on the *text* of /repo's working tree.  `mask()` blanks
comments, string/char literals so that brace matching and regexes only ever see
code; offsets are preserved, so spans found on the mask index the original.
"""
import re


class AnchorLost(Exception):
    """A function / impl / statement the contracts are keyed on cannot be found
    (or is ambiguous).  Always maps to exit 2 ("re-anchor"), never to a VIOLATION."""


def mask(text):
    """Return text with comments and string/char literal *contents* replaced by spaces
    (newlines kept).  Same length as the input."""
    out = list(text)
    i, n = 0, len(text)

    def blank(a, b):
        for k in range(a, b):
            if out[k] != '\n':
                out[k] = ' '

    while i < n:
        c = text[i]
        if c == '/' and i + 1 < n and text[i + 1] == '/':
            j = text.find('\n', i)
            j = n if j < 0 else j
            blank(i, j)
            i = j
        elif c == '/' and i + 1 < n and text[i + 1] == '*':
            depth, j = 1, i + 2
            while j < n and depth:
                if text.startswith('/*', j):
                    depth += 1
                    j += 2
                elif text.startswith('*/', j):
                    depth -= 1
                    j += 2
                else:
                    j += 1
            blank(i, j)
            i = j
        elif c == '"' or (c == 'b' and text.startswith('b"', i)):
            j = i + (2 if c == 'b' else 1)
            while j < n and text[j] != '"':
                j += 2 if text[j] == '\\' else 1
            blank(i + 1, j)
            i = j + 1
        elif c == 'r' and re.match(r'r#*"', text[i:i + 12]) and (i == 0 or not (text[i - 1].isalnum() or text[i - 1] == '_')):
            m = re.match(r'r(#*)"', text[i:])
            close = '"' + m.group(1)
            j = text.find(close, i + len(m.group(0)))
            j = n if j < 0 else j
            blank(i + 1, j)
            i = j + len(close)
        elif c == "'":
            # char literal or lifetime
            m = re.match(r"'(\\.[^']*|[^'\\])'", text[i:i + 12])
            if m:
                blank(i + 1, i + len(m.group(0)) - 1)
                i += len(m.group(0))
            else:
                i += 1
        else:
            i += 1
    return ''.join(out)


def match_close(m, i, open_ch='{', close_ch='}'):
    """m: masked text, i: index of an opening bracket. Returns index of the matching close."""
    assert m[i] == open_ch, (m[i], open_ch)
    depth = 0
    n = len(m)
    k = i
    while k < n:
        ch = m[k]
        if ch == open_ch:
            depth += 1
        elif ch == close_ch:
            depth -= 1
            if depth == 0:
                return k
        k += 1
    raise AnchorLost('unbalanced %s at offset %d' % (open_ch, i))


def norm(s):
    s = re.sub(r'\s+', ' ', s.strip())
    s = re.sub(r'\s*([<>(),:&])\s*', r'\1', s)
    return s


def line_of(text, off):
    return text.count('\n', 0, off) + 1


def find_impls(text, m=None):
    """Yield (header_norm, header_start, body_open, body_close) for every impl block."""
    m = m or mask(text)
    for mo in re.finditer(r'(?m)^[ \t]*(?:unsafe\s+)?impl\b', m):
        s = mo.start() + (len(mo.group(0)) - len(mo.group(0).lstrip()))
        # body opens at first '{' at angle/paren depth 0 after s
        k = mo.end()
        depth = 0
        while k < len(m):
            ch = m[k]
            if ch in '(<[':
                # '<' may be comparison, but not in impl headers
                depth += 1
            elif ch in ')>]':
                if ch == '>' and m[k - 1] == '-':
                    pass
                else:
                    depth -= 1
            elif ch == '{' and depth <= 0:
                break
            elif ch == ';' and depth <= 0:
                k = -1
                break
            k += 1
        if k < 0 or k >= len(m):
            continue
        header = text[s:k]
        hdr = re.split(r'\bwhere\b', mask(header))[0]
        hdr = header[:len(hdr)]
        yield norm(hdr), s, k, match_close(m, k)


def find_fn(text, name, impl=None, m=None, nth=None):
    """Locate `fn name` (inside the impl whose normalised header equals / starts with `impl`,
    or at any depth if impl is None and unique).  Returns dict(start, sig_end, body_open,
    body_close) where text[start:body_open] is the signature (from the `fn` keyword, visibility
    and attributes excluded) and text[body_open:body_close+1] the body block."""
    m = m or mask(text)
    regions = []
    if impl is not None:
        want = norm(impl)
        for hdr, s, bo, bc in find_impls(text, m):
            if hdr == want:
                regions.append((bo, bc))
        if not regions:
            for hdr, s, bo, bc in find_impls(text, m):
                if hdr.startswith(want):
                    regions.append((bo, bc))
        if not regions:
            raise AnchorLost('impl block not found: %r' % impl)
    else:
        regions = [(0, len(text))]
    hits = []
    for (a, b) in regions:
        for mo in re.finditer(r'\bfn\s+%s\b' % re.escape(name), m[a:b]):
            st = a + mo.start()
            # signature ends at first '{' or ';' at paren/angle depth 0
            k = a + mo.end()
            depth = 0
            while k < b:
                ch = m[k]
                if ch in '([':
                    depth += 1
                elif ch in ')]':
                    depth -= 1
                elif ch == '{' and depth == 0:
                    break
                elif ch == ';' and depth == 0:
                    k = -1
                    break
                k += 1
            if k < 0:
                continue  # trait method declaration without body
            # only direct children of the region when impl given (depth check)
            if impl is not None:
                inner = m[a + 1:st]
                if inner.count('{') != inner.count('}'):
                    continue
            hits.append(dict(start=st, body_open=k, body_close=match_close(m, k)))
    if nth is not None:
        if nth >= len(hits):
            raise AnchorLost('fn %s #%d not found (impl=%r)' % (name, nth, impl))
        return hits[nth]
    if len(hits) != 1:
        raise AnchorLost('fn %s: %d candidates (impl=%r)' % (name, len(hits), impl))
    return hits[0]


def find_type(text, kind, name, m=None):
    """Locate `struct Name` / `enum Name` with a braced body."""
    m = m or mask(text)
    hits = []
    for mo in re.finditer(r'\b%s\s+%s\b' % (kind, re.escape(name)), m):
        k = mo.end()
        depth = 0
        while k < len(m):
            ch = m[k]
            if ch in '(<[':
                depth += 1
            elif ch in ')>]':
                depth -= 1
            elif ch == '{' and depth <= 0:
                break
            elif ch == ';' and depth <= 0:
                semi = k
                k = -1
                break
            k += 1
        if k < 0:
            # unit / tuple struct: `struct X;` / `struct X(T);`
            hits.append(dict(start=mo.start(), body_open=semi, body_close=semi))
            continue
        if k >= len(m):
            continue
        hits.append(dict(start=mo.start(), body_open=k, body_close=match_close(m, k)))
    if len(hits) != 1:
        raise AnchorLost('%s %s: %d candidates' % (kind, name, len(hits)))
    return hits[0]


def split_top_commas(s):
    """Split on commas at bracket depth 0 (s should be masked-safe: caller passes original text
    and its mask)."""
    text, m = s
    parts, depth, last = [], 0, 0
    for k, ch in enumerate(m):
        if ch in '([{':
            depth += 1
        elif ch in ')]}':
            depth -= 1
        elif ch == ',' and depth == 0:
            parts.append(text[last:k])
            last = k + 1
    parts.append(text[last:])
    return parts


def stmt_line_start(text, i):
    """Index of the start of the line containing i if only whitespace precedes i on it, else i."""
    j = text.rfind('\n', 0, i) + 1
    return j if text[j:i].strip() == '' else i


def stmt_line_end(text, i):
    """i is just past the end of a statement; swallow trailing spaces and one newline."""
    k = i
    while k < len(text) and text[k] in ' \t':
        k += 1
    if k < len(text) and text[k] == '\n':
        k += 1
    return k


def loops(body, m=None):
    """Return list of (kw_start, block_open) for every `loop`/`while`/`for` in body (in order)."""
    m = m or mask(body)
    res = []
    for mo in re.finditer(r'\b(loop|while|for)\b', m):
        k = mo.end()
        # `for` in `impl<..> X for Y` cannot occur inside a fn body; HRTB `for<'a>` skip
        if mo.group(1) == 'for' and m[k:k + 1] == '<':
            continue
        depth = 0
        while k < len(m):
            ch = m[k]
            if ch in '([':
                depth += 1
            elif ch in ')]':
                depth -= 1
            elif ch == '{' and depth == 0:
                # for `while { cond-block } { body }` and `while let PAT = { block } { body }` the first block is
                # the condition / the scrutinee
                if mo.group(1) == 'while' and (m[mo.end():k].strip() == '' or m[mo.end():k].rstrip().endswith('=')):
                    k = match_close(m, k) + 1
                    continue
                break
            k += 1
        if k >= len(m):
            raise AnchorLost('loop without body')
        res.append((mo.start(), k))
    return res
